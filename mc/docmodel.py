"""E5 - generative document models: intent -> text -> expected AST (with exact positions and ids).

A model is a tree of plain dicts.  `render(model, layout)` emits the source text and, as it emits, records for
every element the 1-based line and the code-point column where it put it; the expected AST, comments and ids
(post-order numbering) are computed from the model, never from the text.  `roles_ok` re-reads the rendered text
with the reference lexer's own-kind classification and the grammar automaton (E1) and keeps a candidate only if
every line is read in the role the model intends.
"""
from __future__ import annotations

import json
import os

from . import core
from . import ref as R

DIALECTS = R.DIALECTS


# ---------------------------------------------------------------------------
# model constructors
# ---------------------------------------------------------------------------
def feature(name='f', children=(), tags=(), desc=(), kw=None, language=None, header=(), pre=()):
    return {'t': 'feature', 'name': name, 'children': list(children), 'tags': list(tags), 'desc': list(desc), 'kw': kw,
            'language': language, 'header': list(header), 'pre': list(pre)}


def rule(name='r', children=(), tags=(), desc=(), kw=None, pre=()):
    return {'t': 'rule', 'name': name, 'children': list(children), 'tags': list(tags), 'desc': list(desc), 'kw': kw, 'pre': list(pre)}


def background(name='', steps=(), desc=(), kw=None, pre=()):
    return {'t': 'background', 'name': name, 'steps': list(steps), 'desc': list(desc), 'kw': kw, 'pre': list(pre)}


def scenario(name='s', steps=(), examples=(), tags=(), desc=(), kw=None, outline=False, pre=()):
    return {'t': 'scenario', 'name': name, 'steps': list(steps), 'examples': list(examples), 'tags': list(tags), 'desc': list(desc),
            'kw': kw, 'outline': outline, 'pre': list(pre)}


def examples(name='', table=None, tags=(), desc=(), kw=None, pre=()):
    """table: None or list of rows (first = header); a row is a list of cell texts or a dict {'cells': [...], 'pre': [...]}"""
    return {'t': 'examples', 'name': name, 'table': table, 'tags': list(tags), 'desc': list(desc), 'kw': kw, 'pre': list(pre)}


def step(text='g', kw=None, role='given', arg=None, pre=()):
    """arg: None | {'t': 'table', 'rows': [...]} | {'t': 'doc', ...}"""
    return {'t': 'step', 'text': text, 'kw': kw, 'role': role, 'arg': arg, 'pre': list(pre)}


def table(rows):
    return {'t': 'table', 'rows': [r if isinstance(r, dict) else {'cells': list(r), 'pre': []} for r in rows]}


def doc(lines=(), delimiter='"""', media='', pre=()):
    """lines: content lines; a plain string is written at the delimiter's indentation, ('raw', text) exactly as given."""
    return {'t': 'doc', 'lines': list(lines), 'delimiter': delimiter, 'media': media, 'pre': list(pre)}


def tagline(names, pre=(), sep=' ', trailing=''):
    return {'names': list(names), 'pre': list(pre), 'sep': sep, 'trailing': trailing}


# noise / description lines
def C(text='# c'):
    return ('comment', text)


def B(text=''):
    return ('blank', text)


def T(text):
    return ('text', text)


# ---------------------------------------------------------------------------
# layout
# ---------------------------------------------------------------------------
class Layout:
    def __init__(self, indent=('', '  ', '    ', '      ', '        '), eol='\n', final_eol=True, cell_pad=(' ', ' '), trail='',
                 name_sep=' ', dialect='en', kw_index=0):
        self.indent = indent
        self.eol = eol
        self.final_eol = final_eol
        self.cell_pad = cell_pad
        self.trail = trail            # trailing blanks on structural lines
        self.name_sep = name_sep
        self.dialect = dialect
        self.kw_index = kw_index


ROLE_KEY = {'feature': 'feature', 'rule': 'rule', 'background': 'background', 'scenario': 'scenario', 'outline': 'scenarioOutline',
            'examples': 'examples'}
STEP_TYPE = {'given': 'Context', 'when': 'Action', 'then': 'Outcome', 'and': 'Conjunction', 'but': 'Conjunction'}


def keyword_type(dialect, kw):
    cats = {STEP_TYPE[r] for r in STEP_TYPE if kw in DIALECTS[dialect][r]}
    return cats.pop() if len(cats) == 1 else 'Unknown'


def escape_cell(v):
    return v.replace('\\', '\\\\').replace('|', '\\|').replace('\n', '\\n')


class Renderer:
    def __init__(self, layout=None):
        self.L = layout or Layout()
        self.lines = []            # raw lines without EOL
        self.roles = []            # intended role per line: kind name
        self.comments = []
        self.ids = R.IdGen()
        self.dialect = self.L.dialect

    # -- emission ----------------------------------------------------------
    def emit(self, text, role):
        self.lines.append(text)
        self.roles.append(role)
        return len(self.lines)

    def noise(self, items, in_description=False):
        """Comment / blank lines between elements.  Returns description-relevant entries when in a description."""
        for kind, text in items:
            if kind == 'comment':
                ln = self.emit(text, 'Comment')
                self.comments.append({'location': {'line': ln, 'column': 1}, 'text': text})
            elif kind == 'blank':
                self.emit(text, 'Empty')
            else:
                raise ValueError(kind)

    def kw(self, node, role):
        if node.get('kw'):
            return node['kw']
        lst = DIALECTS[self.dialect][ROLE_KEY[role]]
        return lst[self.L.kw_index % len(lst)]

    def ind(self, level):
        return self.L.indent[min(level, len(self.L.indent) - 1)]

    def tags(self, taglines, level):
        """Emit tag lines; returns list of (line, column, name) in order."""
        out = []
        for tl in taglines:
            self.noise(tl['pre'])
            ind = self.ind(level)
            col = len(ind) + 1
            parts = []
            pos = col
            for i, n in enumerate(tl['names']):
                if i:
                    parts.append(tl['sep'])
                    pos += len(tl['sep'])
                parts.append(n)
                out.append([None, pos, n])
                pos += len(n)
            ln = self.emit(ind + ''.join(parts) + tl['trailing'] + self.L.trail, 'TagLine')
            for o in out:
                if o[0] is None:
                    o[0] = ln
        return out

    def tag_nodes(self, placed):
        return [{'id': self.ids.next(), 'location': {'line': l, 'column': c}, 'name': n} for l, c, n in placed]

    def keyword_line(self, node, role, level, kind):
        kw = self.kw(node, role)
        ind = self.ind(level)
        name = node['name']
        line = ind + kw + ':' + (self.L.name_sep + name if name != '' else '') + self.L.trail
        ln = self.emit(line, kind)
        return kw, {'line': ln, 'column': len(ind) + 1}

    def description(self, items):
        """items: list of ('text', s) | ('comment', s) | ('blank', s).  Leading blanks are Empty tokens; the description
        starts at the first comment-or-text line."""
        i = 0
        while i < len(items) and items[i][0] == 'blank':
            self.emit(items[i][1], 'Empty')
            i += 1
        kept = []
        for kind, text in items[i:]:
            if kind == 'comment':
                ln = self.emit(text, 'Comment')
                self.comments.append({'location': {'line': ln, 'column': 1}, 'text': text})
            else:
                self.emit(text, 'Other')
                kept.append(text)
        while kept and kept[-1].strip() == '':
            kept.pop()
        return '\n'.join(kept)

    def row(self, r, level):
        self.noise(r.get('pre', ()))
        ind = self.ind(level)
        lp, rp = self.L.cell_pad
        text = ind + '|'
        cells = []
        for v in r['cells']:
            written = escape_cell(v) if not r.get('raw') else v
            start = len(text) + len(lp) + 1
            if written.strip() == '' and not r.get('raw'):
                # empty cell: location is the closing pipe
                start = len(text) + len(lp) + len(rp) + 1
            text += lp + written + rp + '|'
            cells.append([start, v])
        ln = self.emit(text + self.L.trail, 'TableRow')
        return {'id': None, 'location': {'line': ln, 'column': len(ind) + 1},
                'cells': [{'location': {'line': ln, 'column': c}, 'value': v} for c, v in cells]}

    def rows(self, rows, level):
        out = [self.row(r, level) for r in rows]
        for r in out:
            r['id'] = self.ids.next()
        return out

    def docstring(self, d, level):
        self.noise(d.get('pre', ()))
        ind = self.ind(level)
        delim = d['delimiter']
        ln = self.emit(ind + delim + d['media'] + self.L.trail, 'DocStringSeparator')
        content = []
        esc = '\\"\\"\\"' if delim == '"""' else '\\`\\`\\`'
        for item in d['lines']:
            written = item[1] if isinstance(item, tuple) else ind + item      # ('raw', text): written exactly so
            self.emit(written, 'Other')
            own = len(written) - len(written.lstrip())
            got = written[len(ind):] if own >= len(ind) else written.lstrip()
            content.append(got.replace(esc, delim))
        self.emit(ind + delim + self.L.trail, 'DocStringSeparator')
        out = {'location': {'line': ln, 'column': len(ind) + 1}, 'content': '\n'.join(content), 'delimiter': delim}
        if d['media'].strip() != '':
            out['mediaType'] = d['media'].strip()
        return out

    def step(self, s, level):
        self.noise(s['pre'])
        kw = s['kw'] if s['kw'] is not None else next(k for k in DIALECTS[self.dialect][s['role']] if k != '* ')
        ind = self.ind(level)
        ln = self.emit(ind + kw + s['text'] + self.L.trail, 'StepLine')
        node = {'id': None, 'location': {'line': ln, 'column': len(ind) + 1}, 'keyword': kw, 'keywordType': keyword_type(self.dialect, kw),
                'text': s['text'].strip()}
        if s['arg'] is not None:
            if s['arg']['t'] == 'table':
                rows = self.rows(s['arg']['rows'], level + 1)
                node['dataTable'] = {'location': rows[0]['location'], 'rows': rows}
            else:
                node['docString'] = self.docstring(s['arg'], level + 1)
        node['id'] = self.ids.next()
        return node

    def background(self, b, level):
        self.noise(b['pre'])
        kw, loc = self.keyword_line(b, 'background', level, 'BackgroundLine')
        desc = self.description(b['desc'])
        steps = [self.step(s, level + 1) for s in b['steps']]
        return {'id': self.ids.next(), 'location': loc, 'keyword': kw, 'name': b['name'].strip(), 'description': desc, 'steps': steps}

    def examples(self, e, level):
        self.noise(e['pre'])
        placed = self.tags(e['tags'], level)
        kw, loc = self.keyword_line(e, 'examples', level, 'ExamplesLine')
        desc = self.description(e['desc'])
        node = {'id': None, 'tags': None, 'location': loc, 'keyword': kw, 'name': e['name'].strip(), 'description': desc}
        if e['table']:
            rows = self.rows([r if isinstance(r, dict) else {'cells': list(r), 'pre': []} for r in e['table']], level + 1)
            node['tableHeader'] = rows[0]
            node['tableBody'] = rows[1:]
        else:
            node['tableBody'] = []
        node['tags'] = self.tag_nodes(placed)
        node['id'] = self.ids.next()
        return node

    def scenario(self, s, level):
        self.noise(s['pre'])
        placed = self.tags(s['tags'], level)
        kw, loc = self.keyword_line(s, 'outline' if s['outline'] else 'scenario', level, 'ScenarioLine')
        desc = self.description(s['desc'])
        steps = [self.step(x, level + 1) for x in s['steps']]
        exs = [self.examples(x, level + 1) for x in s['examples']]
        tags = self.tag_nodes(placed)
        return {'id': self.ids.next(), 'tags': tags, 'location': loc, 'keyword': kw, 'name': s['name'].strip(), 'description': desc,
                'steps': steps, 'examples': exs}

    def rule(self, r, level):
        self.noise(r['pre'])
        placed = self.tags(r['tags'], level)
        kw, loc = self.keyword_line(r, 'rule', level, 'RuleLine')
        desc = self.description(r['desc'])
        children = []
        for c in r['children']:
            if c['t'] == 'background':
                children.append({'background': self.background(c, level + 1)})
            else:
                children.append({'scenario': self.scenario(c, level + 1)})
        tags = self.tag_nodes(placed)
        return {'id': self.ids.next(), 'tags': tags, 'location': loc, 'keyword': kw, 'name': r['name'].strip(), 'description': desc,
                'children': children}

    def feature(self, f):
        for kind, text in f['header']:
            if kind == 'language':
                self.emit(text, 'Language')
                self.dialect = f['language']
            elif kind == 'comment':
                ln = self.emit(text, 'Comment')
                self.comments.append({'location': {'line': ln, 'column': 1}, 'text': text})
            else:
                self.emit(text, 'Empty')
        self.noise(f['pre'])
        placed = self.tags(f['tags'], 0)
        kw, loc = self.keyword_line(f, 'feature', 0, 'FeatureLine')
        desc = self.description(f['desc'])
        children = []
        for c in f['children']:
            if c['t'] == 'background':
                children.append({'background': self.background(c, 1)})
            elif c['t'] == 'scenario':
                children.append({'scenario': self.scenario(c, 1)})
            else:
                children.append({'rule': self.rule(c, 1)})
        tags = self.tag_nodes(placed)
        return {'tags': tags, 'location': loc, 'language': self.dialect, 'keyword': kw, 'name': f['name'].strip(), 'description': desc,
                'children': children}


def render(model, layout=None, trailer=()):
    """model: a feature model or None (empty document).  Returns (text, expected_doc, renderer)."""
    r = Renderer(layout)
    docd = {}
    if model is not None:
        docd['feature'] = r.feature(model)
    r.noise(trailer)
    docd['comments'] = r.comments
    eol = r.L.eol
    text = eol.join(r.lines)
    if r.lines and r.L.final_eol:
        text += eol
    return text, docd, r


# ---------------------------------------------------------------------------
# admissibility: does the grammar read every rendered line in the intended role?
# ---------------------------------------------------------------------------
_SPEC = None


def own_kind(raw, dialect, active_sep):
    """Own kind of a physical line for the reference lexer in the given mode."""
    lx = R.RefLexer(dialect)
    lx.dialect = dialect
    lx.sep = active_sep
    t = R.Tok(1, raw)
    if active_sep is not None:
        return 'DocStringSeparator' if t.trimmed.startswith(active_sep) else 'Other'
    for kind in ('Empty', 'Language', 'Comment', 'TagLine', 'FeatureLine', 'RuleLine', 'BackgroundLine', 'ScenarioLine',
                 'ExamplesLine', 'StepLine', 'DocStringSeparator', 'TableRow'):
        try:
            if lx.match(kind, t):
                return kind
        except R.RefError:
            return kind
    return 'Other'


def grammar_reading(text, default='en'):
    """Reads a source text with the reference lexer's own-kind classification and the gherkin.berp automaton (E1).
    Returns (accepted_by_grammar, first line the grammar cannot continue at or None, kinds as read).  Faults that are not
    about the grammar (tag with whitespace, unknown language, ragged table) are not judged here."""
    global _SPEC
    from .berp import Spec
    if _SPEC is None:
        _SPEC = Spec()
    lines = text.split('\n')
    raw = [l + '\n' for l in lines[:-1]] + ([lines[-1]] if lines[-1] != '' else [])
    S = _SPEC.initial
    dialect = default
    sep = None
    read = []
    for n, line in enumerate(raw, 1):
        k = own_kind(line, dialect, sep)
        how = _SPEC.read_as(S, k)
        if how is None:
            return False, n, read
        read.append(how)
        if how == 'skip':
            continue
        if how == 'Language':
            name = R.language_header(line.lstrip())
            if name in DIALECTS:
                dialect = name
        if how == 'DocStringSeparator':
            if sep is None:
                sep = '"""' if line.lstrip().startswith('"""') else '```'
            else:
                sep = None
        S = _SPEC.nfa.move(S, how)
    if _SPEC.step(S, 'EOF') is None:
        return False, len(raw) + 1, read
    return True, None, read


def roles_ok(renderer):
    """True iff gherkin.berp's automaton under the reading rule reads each line in the role the model intends."""
    global _SPEC
    from .berp import Spec
    if _SPEC is None:
        _SPEC = Spec()
    S = _SPEC.initial
    dialect = renderer.L.dialect
    sep = None
    eol = renderer.L.eol
    for raw, role in zip(renderer.lines, renderer.roles):
        k = own_kind(raw + eol, dialect, sep)
        how = _SPEC.read_as(S, k)
        if how is None:
            return False
        if how == 'skip':
            got = 'Comment' if k in ('Comment', 'Language') else 'Empty'
            if role != got:
                return False
            continue
        want = role
        if how != want:
            return False
        if how == 'Language':
            name = R.language_header(raw.lstrip())
            if name not in DIALECTS:
                return False
            dialect = name
        if how == 'DocStringSeparator':
            if sep is None:
                sep = '"""' if raw.lstrip().startswith('"""') else '```'
            else:
                sep = None
        S = _SPEC.nfa.move(S, how)
    return _SPEC.step(S, 'EOF') is not None
