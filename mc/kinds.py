"""E3 - kind-level drivers: the real Parser.parse / Parser.match_token run unmodified with a stub
scanner (serves a chosen sequence of line kinds, then EOF for ever), a stub matcher that answers
by kind and a recording builder."""
from __future__ import annotations

from collections import deque

from . import core  # noqa: F401  (sets sys.path)
from .berp import KINDS

from gherkin.parser import Parser, ParserContext
from gherkin.token import Token
from gherkin.errors import CompositeParserException, ParserException


class StubLine:
    __slots__ = ('kind', 'indent', 'n')

    def __init__(self, kind, n):
        self.kind = kind
        self.indent = 0
        self.n = n

    def get_line_text(self, i=-1):
        return self.kind

    def __bool__(self):
        return True


class StubScanner:
    def __init__(self, kinds, first_line=1):
        self.kinds = kinds
        self.i = 0
        self.first = first_line
        self.reads = 0

    def read(self):
        self.i += 1
        self.reads += 1
        ln = self.first + self.i - 1
        if self.i <= len(self.kinds):
            return Token(StubLine(self.kinds[self.i - 1], ln), {'line': ln})
        return Token('', {'line': ln})


class StubMatcher:
    """Language is also a Comment; everything is Other (own-kind priority is the parser's job)."""

    def __init__(self):
        self.calls = 0
        self.resets = 0

    def reset(self):
        self.resets += 1

    def _m(self, token, kind, ok):
        self.calls += 1
        if ok:
            token.matched_type = kind
            token.location['column'] = 1
        return ok

    def match_EOF(self, t):
        return self._m(t, 'EOF', t.eof())

    def match_Other(self, t):
        return self._m(t, 'Other', True)

    def match_Comment(self, t):
        return self._m(t, 'Comment', t.line.kind in ('Comment', 'Language'))


def _mk(k):
    def f(self, t):
        return self._m(t, k, t.line.kind == k)
    f.__name__ = 'match_' + k
    return f


for _k in KINDS:
    if _k not in ('Other', 'Comment'):
        setattr(StubMatcher, 'match_' + _k, _mk(_k))


class RecBuilder:
    def __init__(self):
        self.ev = []
        self.resets = 0

    def reset(self):
        self.ev = []
        self.resets += 1

    def start_rule(self, r):
        self.ev.append(('s', r))

    def end_rule(self, r):
        self.ev.append(('e', r))

    def build(self, t):
        self.ev.append(('b', t.matched_type, t.location['line'], 'EOF' if t.eof() else t.line.kind))

    def get_result(self):
        return self.ev


def err_sig(e):
    """(line, type name, expected list as printed) of a parser error raised at kind level."""
    msg = str(e)
    return (e.location.get('line'), type(e).__name__, msg.split('): ', 1)[1] if '): ' in msg else msg)


def run(kinds, stop=False, trace=None):
    """Full parse of a kind sequence.  Returns dict(ok, ev, errors, calls, reads, final)."""
    b = RecBuilder()
    p = Parser(b)
    p.stop_at_first_error = stop
    m = StubMatcher()
    sc = StubScanner(list(kinds))
    final = [None]
    if trace is not None:
        orig = p.match_token

        def mt(state, token, context):
            new = orig(state, token, context)
            trace.append((state, 'EOF' if token.eof() else token.line.kind, new, len(context.token_queue), len(context.errors)))
            final[0] = new
            return new
        p.match_token = mt
    try:
        p.parse(sc, m)
        return {'ok': True, 'ev': b.ev, 'errors': [], 'calls': m.calls, 'reads': sc.reads}
    except CompositeParserException as e:
        return {'ok': False, 'ev': b.ev, 'errors': [err_sig(x) for x in e.errors], 'calls': m.calls, 'reads': sc.reads}
    except ParserException as e:
        return {'ok': False, 'ev': b.ev, 'errors': [err_sig(e)], 'calls': m.calls, 'reads': sc.reads, 'single': True}
    except Exception as e:  # noqa: BLE001 - the parse loop itself failed
        return {'ok': False, 'ev': b.ev, 'errors': [(None, type(e).__name__, str(e))], 'calls': m.calls, 'reads': sc.reads, 'crash': '%s: %s' % (type(e).__name__, e)}


def step(state, kind, ahead, stop=False):
    """One call of the real Parser.match_token(state, token_kind, context) with `ahead` served by the scanner."""
    b = RecBuilder()
    p = Parser(b)
    p.stop_at_first_error = stop
    m = StubMatcher()
    sc = StubScanner(list(ahead), first_line=100)
    ctx = ParserContext(sc, m, deque(), [])
    tok = Token('', {'line': 99}) if kind == 'EOF' else Token(StubLine(kind, 99), {'line': 99})
    try:
        to = p.match_token(state, tok, ctx)
    except Exception as e:  # noqa: BLE001
        return {'to': None, 'ev': tuple(e2[:2] for e2 in b.ev), 'errors': (('crash', '%s: %s' % (type(e).__name__, e)),), 'queue': (), 'qlines': (),
                'reads': 0, 'calls': m.calls, 'crash': '%s: %s' % (type(e).__name__, e)}
    q = tuple(('EOF' if t.eof() else t.line.kind) for t in ctx.token_queue)
    qlines = tuple(t.location['line'] for t in ctx.token_queue)
    return {'to': to, 'ev': tuple(e[:2] for e in b.ev), 'errors': tuple(err_sig(e)[1:] for e in ctx.errors),
            'queue': q, 'qlines': qlines, 'reads': sc.reads, 'calls': m.calls}
