"""Drivers for the real implementation (imported from /repo/python on every run)."""
from __future__ import annotations

from . import core  # noqa: F401

from gherkin.parser import Parser
from gherkin.ast_builder import AstBuilder
from gherkin.token_matcher import TokenMatcher
from gherkin.token_scanner import TokenScanner
from gherkin.pickles.compiler import Compiler
from gherkin.stream.id_generator import IdGenerator
from gherkin.stream.gherkin_events import GherkinEvents
from gherkin.errors import CompositeParserException, ParserException, ParserError
from gherkin.token_formatter_builder import TokenFormatterBuilder


class StringScanner(TokenScanner):
    """TokenScanner over a source *text*.

    TokenScanner(str) opens the string as a file when a file of that name exists (finding D1, decided by C01).  Every other
    check wants "this text", so: if the text does not name an existing path the library's own constructor is used unchanged
    (nothing here depends on TokenScanner's internals); only for the handful of texts that do name a path ('.', '/', ...)
    the constructor is bypassed and the text is served through an in-memory stream."""

    def __init__(self, text):
        import os
        try:
            exists = os.path.exists(text)
        except (ValueError, TypeError):
            exists = False
        if not exists:
            super().__init__(text)
        else:
            import io
            self.io = io.StringIO(text)
            self.line_number = 0


def err_tuple(e):
    loc = getattr(e, 'location', None)
    if not isinstance(loc, dict):
        return (None, None, str(e), type(e).__name__)
    return (loc.get('line'), loc.get('column'), str(e), type(e).__name__)


class Traced:
    """Wraps parser.match_token on the instance to record canonical control states."""

    def __init__(self, parser, acc):
        self.acc = acc
        self.nerr = 0
        orig = parser.match_token
        states, trans = acc.states, acc.trans

        def mt(state, token, context):
            new = orig(state, token, context)
            m = context.token_matcher
            sym = getattr(token, 'matched_type', None)
            mode = (getattr(m, 'dialect_name', None), getattr(m, '_active_doc_string_separator', None),
                    (getattr(m, '_indent_to_remove', 0) or 0) > 0)
            ql = len(context.token_queue)
            ne = len(context.errors)
            st = (new, mode, min(ql, 3), min(ne, 11))
            states.add(st)
            if ne != self.nerr:
                self.nerr = ne
                trans.add(('unexpected-in', state, token.eof()))
            trans.add((state, sym, new, mode[1]))
            return new
        parser.match_token = mt


def parse(text, stop=False, default='en', acc=None, id_generator=None, raw_scanner=False, matcher=None, reread=False):
    """Returns ('ok', doc) | ('errors', [(line, col, msg)]) | ('error1', [(line, col, msg)]) | ('exc', repr)."""
    ig = id_generator or IdGenerator()
    p = Parser(AstBuilder(ig))
    p.stop_at_first_error = stop
    if acc is not None:
        Traced(p, acc)
    try:
        sc = text if raw_scanner else StringScanner(text)
        m = matcher if matcher is not None else (TokenMatcher(default) if default != 'en' else None)
        d = p.parse(sc, m)
        if not isinstance(d, dict):
            return ('exc', 'Parser.parse returned %r instead of a document' % (d,))
        if reread:
            # asking for the result again (Parser.get_result is public) is a read: same document, and the one already returned keeps its content
            import json
            frozen = json.dumps(d, sort_keys=True, default=repr)
            again = p.get_result()
            if again != d or json.dumps(d, sort_keys=True, default=repr) != frozen:
                return ('exc', 'Parser.get_result() after parse() returned gives %s and leaves the returned document %s'
                        % ('the same document' if again == d else 'another result (%s)' % str(again)[:80], 'unchanged' if json.dumps(d, sort_keys=True, default=repr) == frozen else 'CHANGED'))
        return ('ok', d)
    except CompositeParserException as e:
        return ('errors', [err_tuple(x) for x in e.errors])
    except ParserException as e:
        return ('error1', [err_tuple(e)])
    except RecursionError:
        raise
    except Exception as e:  # noqa: BLE001
        return ('exc', '%s: %s' % (type(e).__name__, e))


_REUSED = {}
_CALLS = {}
# what a long-lived parser / matcher pair has been through before the document under test: rejected documents of every fault class
# (unknown language, tag with a blank, unclosed doc string, ragged table, unexpected line, > 10 errors) and a dialect switch
HISTORY = [
    '#language: fr\nFonctionnalité: f\n  Scénario: s\n    Soit g\n',
    'Feature: f\n  Scenario: s\n    Given g\n      ```md\n      open\n',
    'Feature: f\n  @a b\n  Scenario: s\n    Given g\n      | a | b |\n      | c |\n',
    'Feature: f\n' + '  Rule: r\n  Feature: g\n' * 12,
    'Feature: f\n  Scenario Outline: o <a>\n    * g <a>\n  @t\n    Examples:\n      | a |\n      | 1 |\n  # c\n',
    '#language: no-such-language\nFeature: f\n  Scenario: s\n    Given g\n',
]


def _history(p, m):
    for h in HISTORY:
        try:
            p.parse(StringScanner(h), m)
        except ParserError:
            pass


def parse_reused(text, default='en', stop=False, poison=False):
    """Same as parse(), but with ONE long-lived Parser + TokenMatcher per process and dialect (only the id generator is
    fresh, so that ids are comparable): what a caller sees who keeps its parser and matcher for many files.  The pair goes through
    HISTORY when it is created, again every 64th call, and right before this call when poison is set."""
    key = (default, stop)
    if key not in _REUSED:
        _REUSED[key] = (Parser(AstBuilder(IdGenerator())), TokenMatcher(default))
        _CALLS[key] = 0
    p, m = _REUSED[key]
    p.stop_at_first_error = stop
    p.ast_builder.id_generator = IdGenerator()
    try:
        if poison or _CALLS[key] % 64 == 0:
            _history(p, m)
        _CALLS[key] += 1
        d = p.parse(StringScanner(text), m)
        if not isinstance(d, dict):
            return ('exc', 'Parser.parse returned %r instead of a document' % (d,))
        return ('ok', d)
    except CompositeParserException as e:
        return ('errors', [err_tuple(x) for x in e.errors])
    except ParserException as e:
        return ('error1', [err_tuple(e)])
    except RecursionError:
        raise
    except Exception as e:  # noqa: BLE001
        return ('exc', '%s: %s' % (type(e).__name__, e))


def _plain_text(text):
    """True when the string cannot be mistaken for a path by TokenScanner(path_or_str) (finding D1 is C01's)."""
    import os
    try:
        return '\n' in text and not os.path.exists(text)
    except (ValueError, OSError):
        return False


def parse_routes(text, default='en', acc=None):
    """[(route name, result)]: fresh instances, then instances that have parsed other documents before."""
    return [('fresh parser', parse(text, default=default, acc=acc, reread=True)),
            ('parser and matcher that parsed other documents before', parse_reused(text, default)),
            ('fresh parser in stop-at-first-error mode with an explicitly passed matcher', parse(text, stop=True, matcher=TokenMatcher(default)))] + \
        ([('parser given the text itself instead of a scanner', parse(text, default=default, raw_scanner=True))] if _plain_text(text) else [])


def full(text, stop=False, default='en', acc=None, uri='u'):
    """parse + compile with a shared id generator: ('ok', doc_with_uri, pickles) or as parse()."""
    ig = IdGenerator()
    r = parse(text, stop, default, acc, ig)
    if r[0] != 'ok':
        return r
    doc = r[1]
    doc['uri'] = uri
    try:
        pickles = Compiler(ig).compile(doc)
    except Exception as e:  # noqa: BLE001
        return ('exc', 'compile: %s: %s' % (type(e).__name__, e))
    return ('ok', doc, pickles)


class TokenRecorder(TokenFormatterBuilder):
    """The library's token formatter, additionally keeping the tokens it was given (in a list of our own: nothing here
    depends on how the formatter stores them)."""

    def reset(self):
        super().reset()
        self.seen = []

    def build(self, token):
        if not hasattr(self, 'seen'):
            self.seen = []
        self.seen.append(token)
        super().build(token)

    def tokens(self):
        return list(getattr(self, 'seen', []))


def tokens(text, default='en', stop=False):
    """Token listing as printed by scripts/generate_tokens.py: ('ok', listing, tokens) or ('errors', ..., tokens delivered)."""
    b = TokenRecorder()
    p = Parser(b)
    p.stop_at_first_error = stop
    try:
        m = TokenMatcher(default) if default != 'en' else None
        out = p.parse(StringScanner(text), m)
        return ('ok', out, b.tokens())
    except CompositeParserException as e:
        return ('errors', [err_tuple(x) for x in e.errors], b.tokens())
    except ParserException as e:
        return ('error1', [err_tuple(e)], b.tokens())
    except Exception as e:  # noqa: BLE001
        return ('exc', '%s: %s' % (type(e).__name__, e), b.tokens())


def events(text, uri='u', opts=(True, True, True), ge=None):
    ge = ge or GherkinEvents(GherkinEvents.Options(print_source=opts[0], print_ast=opts[1], print_pickles=opts[2]))
    ev = {'source': {'uri': uri, 'data': text, 'mediaType': 'text/x.cucumber.gherkin+plain'}}
    try:
        return ('ok', list(ge.enum(ev)))
    except Exception as e:  # noqa: BLE001
        return ('exc', '%s: %s' % (type(e).__name__, e))
