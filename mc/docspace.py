"""Bounded document spaces shared by several checks (C01, C03, C04, C14, C16, C18).

Space "lines from every control state": for every witness prefix (one per parser state of the generated
machine and per matcher mode) all suffixes of <= K lines over an alphabet of concrete lines, with and
without a final newline.  The witness prefixes are computed from the transition table (BFS, shortest
kind path per state) and rendered with one canonical line per kind.
"""
from __future__ import annotations

import itertools

from . import core
from .core import Acc, worker
from . import tables as TB

CANON = {
    'Empty': '\n', 'Comment': '# c\n', 'TagLine': '@t\n', 'FeatureLine': 'Feature: f\n', 'RuleLine': 'Rule: r\n',
    'BackgroundLine': 'Background: b\n', 'ScenarioLine': 'Scenario: s\n', 'ExamplesLine': 'Examples: e\n',
    'StepLine': 'Given g\n', 'DocStringSeparator': '"""\n', 'TableRow': '| a |\n', 'Language': '#language: en\n',
    'Other': 'text\n',
}

# one line per shortcut visible in the anchored code
SIGMA_FULL = [
    '\n',
    '# c\n',
    '  @t1 @t2\n',
    'Feature: f\n',
    '  Rule: r\n',
    '  Background:\n',
    '  Scenario: s\n',
    '  Scenario Outline: o <a>\n',
    '    Examples:\n',
    '    Given g <a>\n',
    '    And a\n',
    '    * star\n',
    '      """\n',
    '      ```json\n',
    '      | a | b |\n',
    '      | 1 |\n',
    '  | a | b |\n',
    '      | a(b | <x> |\n',
    '      | x \\n| \\1$ |\n',
    '      | t |\\\n',
    '  @bad tag\n',
    '  @ok @bad tag\n',
    '  @t #c\n',
    '      |\n',
    '#language: fr\n',
    '  #language: xx\n',
    '# Language: Klingon\n',
    'free text  \n',
    ' \x0b \n',
    'Scénario: é\r\n',
    '\U0001F600 x\n',
    '\\"\\"\\"\n',
    '  \\`\\`\\` x\n',
]
# lines whose shortcut needs one more coincidence (end of input, a carriage return that ends nothing, a keyword without its colon);
# explored as every word of length <= 2 over FULL + RARE that contains at least one of them
SIGMA_RARE = [
    '    Examples\n',
    '  Rule\n',
    'Scenario:s\n',
    '  EOF\n',
    '# c\rmore\n',
    ' \r  Scenario: s2\n',
    '    Given a\rb \r\n',
    '  @r1 \r @r2\n',
    '      | a\r | b |\n',
    '  @t1 #@t2 x\n',
    '# Language: fr\n',
    '    Given a\x00b\n',
]
SIGMA_CORE = [
    '\n',
    '# c\n',
    '  @t1 @t2\n',
    'Feature: f\n',
    '  Rule: r\n',
    '  Background:\n',
    '  Scenario Outline: o <a>\n',
    '    Examples:\n',
    '    Given g <a>\n',
    '      """\n',
    '      | a | b |\n',
    '      | 1 |\n',
    'free text  \n',
]

EXTRA_PREFIXES = [
    # matcher modes the kind-level witnesses do not reach
    '#language: fr\nFonctionnalité: f\n',
    '#language: fr\nFonctionnalité: f\n  Scénario: s\n    Soit g\n',
    'Feature: f\n  Scenario: s\n    Given g\n      ```\n',
    'Feature: f\n  Background:\n    Given g\n   """ m\n',
    'Feature: f\n  Scenario Outline: o <a>\n    Given g <a>\n    Examples:\n      | a | b |\n',
    'Feature: f\n  Scenario Outline: o\n    And g <a(b>\n    Examples:\n      | a(b |\n',
    'Feature: f\n  Rule: r\n    Background:\n      Given g\n    Scenario: s\n      Given h\n        | a |\n',
    'Feature: f\n  Scenario: s\n    Given g\n  @t\n',
    'Feature: f\n  Scenario: s\n    Given g\n      | a | b |\n      | c |\n  @t\n',
    'Feature: f\n  Scenario Outline: o\n    Given g\n    Examples:\n    | a |\n  @t\n  # c\n\n',
]

_WIT = None


def witnesses():
    """Shortest kind path to every state of the (Java) transition table, rendered as text."""
    global _WIT
    if _WIT is not None:
        return _WIT
    tab = TB.static_table('java')['states']
    seen = {0: ()}
    order = [0]
    i = 0
    while i < len(order):
        s = order[i]
        i += 1
        if s not in tab:
            continue
        for alt in tab[s]['alts']:
            if alt['tok'] == 'EOF':
                continue
            to = alt['to']
            if to not in seen:
                seen[to] = seen[s] + (alt['tok'],)
                order.append(to)
    wit = []
    for s in sorted(seen):
        if s == TB.FINAL:
            continue
        wit.append((s, ''.join(CANON[k] for k in seen[s])))
    _WIT = wit
    return wit


def prefixes():
    out = []
    for s, text in witnesses():
        if text not in out:
            out.append(text)
    for p in EXTRA_PREFIXES:
        if p not in out:
            out.append(p)
    return out


def suffixes(sigma, k):
    for n in range(k + 1):
        for seq in itertools.product(sigma, repeat=n):
            yield ''.join(seq)


def docs_from(prefix, sigma, k, both_endings=True):
    """All documents prefix.w, w over sigma with |w| <= k; each also without its final newline."""
    for w in suffixes(sigma, k):
        t = prefix + w
        yield t
        if both_endings and t.endswith('\n'):
            yield t[:-1]


def level_jobs(mod, sigma_name, k):
    """Jobs enumerating exactly the words of length k over the named alphabet after every prefix."""
    pre = prefixes()
    sigma = SIGMA_FULL if sigma_name == 'full' else SIGMA_CORE
    jobs = []
    if sigma_name == 'rare':
        return [job_rare.job(mod, pi, k) for pi in range(len(pre))]
    for pi in range(len(pre)):
        if k <= 1:
            jobs.append(job_exact.job(mod, pi, sigma_name, None, k))
        else:
            for li in range(len(sigma)):
                jobs.append(job_exact.job(mod, pi, sigma_name, li, k))
    return jobs


@worker
def job_exact(module, pi, sigma_name, li, k):
    import importlib
    mod = importlib.import_module(module)
    acc = Acc()
    pre = prefixes()[pi]
    sigma = SIGMA_FULL if sigma_name == 'full' else SIGMA_CORE
    if li is None:
        seqs = itertools.product(sigma, repeat=k)
    else:
        seqs = ((sigma[li],) + s for s in itertools.product(sigma, repeat=k - 1))
    t = pre
    for seq in seqs:
        t = pre + ''.join(seq)
        mod.check_text(t, acc)
        if t.endswith('\n'):
            mod.check_text(t[:-1], acc)
    acc.sample({'text': t})
    return acc


@worker
def job_rare(module, pi, k):
    """Every word of length 1..k over FULL + RARE with at least one RARE line, after one prefix; with and without the final newline."""
    import importlib
    mod = importlib.import_module(module)
    acc = Acc()
    pre = prefixes()[pi]
    both = SIGMA_FULL + SIGMA_RARE
    rare = set(SIGMA_RARE)
    t = pre
    for n in range(1, k + 1):
        for seq in itertools.product(both, repeat=n):
            if not rare.intersection(seq):
                continue
            t = pre + ''.join(seq)
            mod.check_text(t, acc)
            mod.check_text(t[:-1], acc)
    acc.sample({'text': t})
    return acc


# single-edit neighbourhood of real documents: the acceptance corpus and the model base documents with one character inserted
# (from EDIT_CHARS) or deleted at every position, one line duplicated / deleted / swapped with the next at every line
EDIT_CHARS = [' ', '\t', '\r', '\n', '@', '#', '|', '\\', ':', '<', '"', '`', '*', 'n']
_EDIT_BASES = {}


def edit_bases(max_chars):
    if max_chars not in _EDIT_BASES:
        from . import ref as R
        from . import gen as G
        from . import docmodel as M
        good, bad = R.corpus()
        out = []
        for path in good + bad:
            t = R.read_source(path)
            if 0 < len(t) <= max_chars:
                out.append(t)
        for b in G.base_documents():
            t = M.render(b)[0]
            if len(t) <= max_chars and t not in out:
                out.append(t)
        _EDIT_BASES[max_chars] = out
    return _EDIT_BASES[max_chars]


# blanks the specification, str.isspace(), str.strip() and the regex class \\s do not all agree on, a combining mark, a letter
# whose case mapping changes its length, an astral character: inserted at every position of the short bases
UNICODE_EDIT_CHARS = ['\x00', '\u00a0', '\u0085', '\u2003', '\u2028', '\u3000', '\ufeff', '\u200b', '\u180e', '\u001c', '\u0301', '\u0130', '\U0001F600']


def single_edits(text):
    seen = {text}
    chars = EDIT_CHARS + (UNICODE_EDIT_CHARS if len(text) <= 130 else [])
    for i in range(len(text) + 1):
        for c in chars:
            t = text[:i] + c + text[i:]
            if t not in seen:
                seen.add(t)
                yield t
        if i < len(text):
            t = text[:i] + text[i + 1:]
            if t not in seen:
                seen.add(t)
                yield t
    lines = text.split('\n')
    for i in range(len(lines)):
        for l2 in (lines[:i] + lines[i + 1:], lines[:i + 1] + lines[i:], lines[:i] + lines[i + 1:i + 2] + lines[i:i + 1] + lines[i + 2:]):
            t = '\n'.join(l2)
            if t not in seen:
                seen.add(t)
                yield t


@worker
def job_edits(module, max_chars, bi):
    import importlib
    mod = importlib.import_module(module)
    acc = Acc()
    base = edit_bases(max_chars)[bi]
    t = base
    for t in single_edits(base):
        mod.check_text(t, acc)
    acc.sample({'text': t[:300]})
    return acc


LINE_SHIFTS = (8, 9, 10, 98, 99, 100, 998, 999, 1000)


@worker
def job_line_numbers(module, bi):
    """Base and corpus documents pushed down by n comment / blank lines (n around 10, 100, 1000: every line number gains a digit),
    and the same with an unexpected line appended."""
    import importlib
    mod = importlib.import_module(module)
    acc = Acc()
    base = edit_bases(700)[bi]
    t = base
    lang = base.lstrip().startswith('#') and 'language' in base.split('\n', 1)[0]
    for n in LINE_SHIFTS:
        for filler in ('\n', '# c\n'):
            for tail in ('', '  @dangling\n', 'zzz\n'):
                if lang:
                    first, rest = base.split('\n', 1)
                    t = first + '\n' + filler * n + rest + tail
                else:
                    t = filler * n + base + tail
                mod.check_text(t, acc)
    acc.sample({'text': t[-200:]})
    return acc


@worker
def job_repetition_texts(module, what_index):
    """The repetition family of mc.gen as plain texts (one construct 1..12 times), also with the last line removed and with an unexpected line appended."""
    import importlib
    from . import gen as G
    from . import docmodel as M
    mod = importlib.import_module(module)
    acc = Acc()
    t = ''
    for (what, n), f in G.repetition_documents():
        if what != G.REPEATABLE[what_index]:
            continue
        t = M.render(f)[0]
        for v in (t, t[:-1], t.rsplit('\n', 2)[0] + '\n', t + 'zzz\n', t + '  @dangling\n'):
            mod.check_text(v, acc)
    acc.sample({'text': t[-300:]})
    return acc


def edit_jobs(mod, max_chars):
    return [job_edits.job(mod, max_chars, bi) for bi in range(len(edit_bases(max_chars)))]


def run_levels(ctx, mod, k_full, k_core):
    """Iterated bounds: all words of length 0, 1, ..., k_full over the full alphabet, then lengths up to k_core over the core."""
    for k in range(0, k_full + 1):
        ctx.level('full-alphabet K=%d' % k, level_jobs(mod, 'full', k))
    ctx.level('rare-line alphabet K<=2', level_jobs(mod, 'rare', 2))
    mc = ctx.pick(250, 1500)
    ctx.level('single edits of corpus and base documents <= %d characters' % mc, edit_jobs(mod, mc))
    from . import gen as G
    ctx.level('one construct repeated 1..12 times, as text', [job_repetition_texts.job(mod, i) for i in range(len(G.REPEATABLE))])
    ctx.level('documents pushed down by 8..1000 lines', [job_line_numbers.job(mod, bi) for bi in range(len(edit_bases(700)))])
    for k in range(k_full + 1, k_core + 1):
        ctx.level('core-alphabet K=%d' % k, level_jobs(mod, 'core', k))
