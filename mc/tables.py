"""E2 - transition tables.

static_table(lang)   line-regex extraction from the generated parser sources of six implementations
dynamic_table()      extraction from the *running* Python parser: the real Parser.match_token is
                     called for every (state, kind, look-ahead context)
choice_paths()       every path through every match_token_at_N with a choice-driven matcher
"""
from __future__ import annotations

import itertools
import os
import re
from collections import deque

from . import core
from .berp import KINDS, ALL
from . import kinds as K

FILES = {
    'python': 'python/gherkin/parser.py',
    'java': 'java/src/main/java/io/cucumber/gherkin/Parser.java',
    'go': 'go/parser.go',
    'ruby': 'ruby/lib/gherkin/parser.rb',
    'c': 'c/src/parser.c',
    'js': 'javascript/src/Parser.ts',
}
STATE_RE = {
    'python': r'def match_token_at_(\d+)\(',
    'java': r'matchTokenAt_(\d+)\(Token token, ParserContext context\)\s*\{',
    'go': r'^func \(ctxt \*parseContext\) matchAt(\d+)\(',
    'ruby': r'def match_token_at_state(\d+)\(',
    'c': r'^static int match_token_at_(\d+)\(',
    'js': r'private matchTokenAt_(\d+)\(',
}
LA_RE = {
    'python': r'def lookahead_(\d+)\(',
    'java': r'private boolean lookahead_(\d+)\(',
    'go': r'^func \(ctxt \*parseContext\) lookahead(\d+)\(',
    'ruby': r'def lookahead_?(\d+)\(',
    'c': r'^static bool lookahead_(\d+)\(',
    'js': r'private lookahead_(\d+)\(',
}
SKIP = ('Empty', 'Comment', 'TagLine', 'Language')   # a language-looking line is a comment in look-ahead positions
FINAL = 34


def static_table(lang):
    path = os.path.join(core.REPO, FILES[lang])
    src = open(path, encoding='utf8').read().split('\n')
    states = {}
    lookaheads = {}
    cur = None
    la_cur = None
    alt = None
    for ln in src:
        m = re.search(STATE_RE[lang], ln)
        if m and not ln.strip().startswith(('return', 'case', '//', '#')):
            cur = int(m.group(1))
            la_cur = None
            states[cur] = {'alts': [], 'expected': None, 'comment': None, 'err_ret': None}
            alt = None
            continue
        m = re.search(LA_RE[lang], ln)
        if m and not ln.strip().startswith(('return', 'if', '//', '#')) and 'if ' not in ln:
            la_cur = int(m.group(1))
            cur = None
            lookaheads[la_cur] = []
            continue
        if la_cur is not None:
            for mm in re.finditer(r'[mM]atch_?([A-Z]\w+)\s*\(', ln):
                lookaheads[la_cur].append(mm.group(1))
            if re.search(r'return match\b', ln):
                la_cur = None
            continue
        if cur is None:
            continue
        st = states[cur]
        m = re.search(r'[mM]atch_?([A-Z]\w+)\s*\(', ln)
        if m and 'def ' not in ln and 'func ' not in ln and st['expected'] is None:
            alt = {'tok': m.group(1), 'la': None, 'prods': [], 'to': None}
            st['alts'].append(alt)
        m2 = re.search(r'lookahead_?(\d)\s*\(', ln)
        if m2 and alt is not None and st['expected'] is None:
            alt['la'] = int(m2.group(1))
        m3 = re.search(r'(start|end)_?[rR]ule\s*\(\s*(?:context,\s*)?(?:RuleType\.|RuleType|Rule_|:|\'|")?(\w+?)\'?"?\s*\)', ln)
        if m3 and alt is not None and st['expected'] is None:
            alt['prods'].append((m3.group(1), None if m3.group(2) == 'context' else m3.group(2)))
        if re.search(r'\bbuild\s*\(', ln) and alt is not None and st['expected'] is None and 'def ' not in ln:
            alt['prods'].append(('build',))
        m4 = re.search(r'return (\d+)', ln)
        if m4:
            if st['expected'] is None:
                if alt is not None and alt['to'] is None:
                    alt['to'] = int(m4.group(1))
            else:
                st['err_ret'] = int(m4.group(1))
        m5 = re.search(r'State: (\d+) - ([^"]*)"', ln)
        if m5:
            st['comment'] = m5.group(2)
        if re.search(r'expected_?[tT]okens\s*(=|:=|\[\])', ln) or re.search(r'expectedTokens = ', ln):
            toks = re.findall(r'#\w+', ln)
            if toks:
                st['expected'] = toks
    return {'states': states, 'lookaheads': lookaheads}


def la_class(k):
    return 'S' if k == 'ScenarioLine' else 'E' if k == 'ExamplesLine' else 'N'


def dynamic_table(max_pre=2):
    """Drive the real Parser.match_token for every state, kind and look-ahead context.

    Returns (T, info): T[(state, kind, cls)] = (target, events, error (type, text) tuple);
    verifies on the way that the outcome depends on the look-ahead only through the class of the
    first non-skipped line and that a look-ahead re-queues exactly what it read, in order."""
    T = {}
    calls = 0
    problems = []
    states = [s for s in range(43) if s != FINAL]
    terms = [t for t in ALL if t not in SKIP]
    for s in states:
        for k in ALL:
            res = {}
            for pre_len in range(max_pre + 1):
                for pre in itertools.product(SKIP, repeat=pre_len):
                    for t in terms:
                        ahead = list(pre) + ([t] if t != 'EOF' else [])
                        r = K.step(s, k, ahead)
                        calls += 1
                        if r.get('crash'):
                            problems.append(('crash', s, k, pre, t, r['crash']))
                        res.setdefault(la_class(t), set()).add((r['to'], r['ev'], r['errors']))
                        want = tuple(pre) + (t,)
                        if r['queue'] != () and r['queue'] != want:
                            problems.append(('queue', s, k, pre, t, r['queue']))
                        if r['queue'] and r['qlines'] != tuple(range(100, 100 + len(r['queue']))):
                            problems.append(('queue-order', s, k, pre, t, r['qlines']))
                        if r['queue'] == () and r['reads'] != 0:
                            problems.append(('read-not-requeued', s, k, pre, t, r['reads']))
            for c, v in res.items():
                if len(v) != 1:
                    problems.append(('not-a-function-of-class', s, k, c, sorted(v)[:3]))
                T[(s, k, c)] = sorted(v)[0]
    uses_la = sorted({(s, k) for (s, k, c) in T if len({T[(s, k, x)] for x in 'SEN'}) > 1})
    return T, {'calls': calls, 'problems': problems, 'uses_lookahead': uses_la}


# ---------------------------------------------------------------------------
# choice-driven exploration: every path through every match_token_at_N
# ---------------------------------------------------------------------------
class _Line:
    indent = 0

    def get_line_text(self, i=-1):
        return 'L'


class ChoiceMatcher:
    """Answers come from a script (list of bools); beyond the script the answer is False."""

    def __init__(self, script):
        self.script = script
        self.log = []
        self.memo = {}

    def reset(self):
        pass

    def __getattr__(self, name):
        if name.startswith('match_'):
            def f(token, name=name):
                # a matcher is a function of the line: the same question about the same token gets the same answer
                # ... and line kinds are mutually exclusive (only Language/Comment overlap; everything is Other)
                key = (name, token.tag)
                if key in self.memo:
                    return self.memo[key]
                own = self.memo.get(('own', token.tag))
                if own is not None and name[6:] not in ('Other', own) and {own, name[6:]} != {'Language', 'Comment'}:
                    return False
                i = len(self.log)
                ans = self.script[i] if i < len(self.script) else False
                self.memo[key] = ans
                if ans and name[6:] != 'Other':
                    self.memo.setdefault(('own', token.tag), name[6:])
                self.log.append((name[6:], token.tag, ans))
                if ans:
                    token.matched_type = name[6:]
                    token.location['column'] = 1
                return ans
            return f
        raise AttributeError(name)


class _Rec:
    def __init__(self):
        self.ev = []

    def reset(self):
        pass

    def start_rule(self, r):
        self.ev.append(('start', r))

    def end_rule(self, r):
        self.ev.append(('end', r))

    def build(self, t):
        self.ev.append(('build', t.tag))


class _Scan:
    def __init__(self):
        self.n = 0

    def read(self):
        from gherkin.token import Token
        self.n += 1
        t = Token(_Line(), {'line': 100 + self.n})
        t.tag = 'q%d' % self.n
        return t


def choice_run(state, script, eof=False):
    from gherkin.parser import Parser, ParserContext
    from gherkin.token import Token
    rec = _Rec()
    p = Parser(rec)
    m = ChoiceMatcher(script)
    ctx = ParserContext(_Scan(), m, deque(), [])
    tok = Token('' if eof else _Line(), {'line': 1})
    tok.tag = 'cur'
    try:
        to = p.match_token(state, tok, ctx)
    except Exception as e:  # noqa: BLE001 - reported by dynamic_table as a crashing transition
        return {'to': None, 'ev': rec.ev, 'log': m.log, 'err': ['%s: %s' % (type(e).__name__, e)], 'q': []}
    return {'to': to, 'ev': rec.ev, 'log': m.log, 'err': [str(e) for e in ctx.errors], 'q': [t.tag for t in ctx.token_queue]}


def choice_paths(state, eof=False, maxla=2):
    """DFS over answer scripts, 0..n deviations from 'all False'."""
    out = []

    def rec(script):
        r = choice_run(state, script, eof)
        out.append((list(script), r))
        if len([x for x in r['log'] if x[1] != 'cur']) > 4 * maxla:
            return
        for i in range(len(script), len(r['log'])):
            rec(script + [False] * (i - len(script)) + [True])
    rec([])
    return out
