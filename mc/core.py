"""Common machinery: sharded exhaustive enumeration, accumulators, evidence / replay writers,
known-findings handling.

Vocabulary
----------
case      one JSON-serialisable input of a check (a text, a kind sequence, a history, a schedule, ...).
job       a compact descriptor that a worker expands into many cases (a shard of the enumeration).
Acc       what a worker returns for a job: counters, canonical states / transitions seen, the
          smallest violations it met.
level     one iterated bound of a check ("K=2", "L=6", ...); a level is either completed or it is
          reported as not exhaustive.
"""
from __future__ import annotations

import collections
import hashlib
import json
import multiprocessing
import os
import sys
import time
import traceback

ROOT = os.path.dirname(os.path.dirname(os.path.abspath(__file__)))
REPO = os.environ.get("VERIF_REPO", "/repo")
PYLIB = os.path.join(REPO, "python")
if PYLIB not in sys.path:
    sys.path.insert(0, PYLIB)

NPROC = int(os.environ.get("VERIF_JOBS", "0")) or min(16, os.cpu_count() or 1)


class InternalError(Exception):
    """The checking machinery itself is inconsistent (self-test failed, unsound abstraction)."""


def digest(obj) -> str:
    return hashlib.sha256(json.dumps(obj, sort_keys=True, ensure_ascii=False, default=repr).encode("utf8", "surrogatepass")).hexdigest()[:16]


def size_of(case) -> int:
    try:
        return len(json.dumps(case, ensure_ascii=False, default=repr))
    except Exception:
        return 1 << 30


class Acc:
    """Mergeable accumulator."""

    MAX_VIOL_PER_SIG = 2
    MAX_SAMPLES = 6

    def __init__(self):
        self.n = 0                      # evaluations (executions of the implementation on a case)
        self.validated = 0              # executions whose complete outcome was compared with a prediction
        self.nontrivial = 0             # distinct inputs that exercise the subject of the property
        self.states = set()
        self.trans = set()
        self.outcomes = collections.Counter()
        self.counters = collections.Counter()
        self.samples = []
        self.viol = {}                  # sig -> list of violation dicts (smallest first)
        self.maxima = {}

    # -- recording -------------------------------------------------------
    def sample(self, case):
        if len(self.samples) < self.MAX_SAMPLES:
            self.samples.append(case)

    def violation(self, sig, case, message, observed=None, expected=None):
        v = {"sig": sig, "case": case, "message": message, "observed": observed, "expected": expected,
             "size": size_of(case)}
        lst = self.viol.setdefault(sig, [])
        lst.append(v)
        lst.sort(key=lambda x: (x["size"], json.dumps(x["case"], sort_keys=True, default=repr)))
        del lst[self.MAX_VIOL_PER_SIG:]

    def maximum(self, key, value):
        if value > self.maxima.get(key, float("-inf")):
            self.maxima[key] = value

    # -- merging ---------------------------------------------------------
    def merge(self, o: "Acc"):
        self.n += o.n
        self.validated += o.validated
        self.nontrivial += o.nontrivial
        self.states |= o.states
        self.trans |= o.trans
        self.outcomes.update(o.outcomes)
        self.counters.update(o.counters)
        for s in o.samples:
            self.sample(s)
        for sig, lst in o.viol.items():
            mine = self.viol.setdefault(sig, [])
            mine.extend(lst)
            mine.sort(key=lambda x: (x["size"], json.dumps(x["case"], sort_keys=True, default=repr)))
            del mine[self.MAX_VIOL_PER_SIG:]
        for k, v in o.maxima.items():
            self.maximum(k, v)
        return self


# ---------------------------------------------------------------------------
# pool
# ---------------------------------------------------------------------------
_POOL = None
_FN = None


JOB_TIMEOUT = int(os.environ.get("VERIF_JOB_TIMEOUT", "0")) or (300 if os.environ.get("VERIF_TIER", "quick") == "quick" else 1800)


class JobTimeout(BaseException):
    pass


def _alarm(signum, frame):
    raise JobTimeout("job exceeded %d s: the implementation hangs or is far slower than linear" % JOB_TIMEOUT)


def _call(job):
    import signal
    try:
        signal.signal(signal.SIGALRM, _alarm)
        signal.alarm(JOB_TIMEOUT)
    except ValueError:
        pass
    try:
        if job[0] not in _FN_TABLE:
            # the pool was forked before that module was imported
            import importlib
            importlib.import_module(job[0].rsplit('.', 1)[0])
        return _FN_TABLE[job[0]](*job[1:])
    except InternalError:
        raise
    except BaseException:  # noqa: BLE001 - report everything to the parent
        a = Acc()
        a.violation("harness-exception", {"job": repr(job)[:400]},
                    "worker raised while running the implementation:\n" + traceback.format_exc()[-3000:])
        return a
    finally:
        try:
            signal.alarm(0)
        except ValueError:
            pass


_FN_TABLE = {}


def worker(fn):
    """Register a module-level function as a job runner: jobs are tuples (fn.__qualname__, *args)."""
    _FN_TABLE[fn.__module__ + "." + fn.__qualname__] = fn
    fn.job = lambda *args: (fn.__module__ + "." + fn.__qualname__,) + args
    return fn


def run_jobs(jobs, acc: Acc | None = None, deadline: float | None = None, serial: bool = False):
    """Run every job (order irrelevant); returns (acc, completed: bool).

    The pool is forked at first use, i.e. after the caller has built its (read-only) tables.
    If `deadline` passes, the remaining jobs are abandoned and completed=False is returned -
    the caller then reports that level as not exhaustive.
    """
    global _POOL
    acc = acc if acc is not None else Acc()
    jobs = list(jobs)
    if not jobs:
        return acc, True
    if serial or NPROC == 1 or len(jobs) == 1:
        for j in jobs:
            if deadline is not None and time.time() > deadline:
                return acc, False
            acc.merge(_call(j))
        return acc, True
    if _POOL is None:
        ctx = multiprocessing.get_context("fork")
        _POOL = ctx.Pool(NPROC)
    it = _POOL.imap_unordered(_call, jobs, chunksize=1)
    done = 0
    completed = True
    try:
        while done < len(jobs):
            try:
                timeout = None if deadline is None else max(0.5, deadline - time.time())
                r = it.next(timeout)
            except multiprocessing.TimeoutError:
                completed = False
                break
            acc.merge(r)
            done += 1
    finally:
        if not completed:
            reset_pool()
    return acc, completed


def reset_pool():
    global _POOL
    if _POOL is not None:
        _POOL.terminate()
        _POOL.join()
        _POOL = None


# ---------------------------------------------------------------------------
# known findings
# ---------------------------------------------------------------------------
KNOWN_FILE = os.path.join(ROOT, "known_findings.json")


def load_known(prop):
    try:
        data = json.load(open(KNOWN_FILE, encoding="utf8"))
    except FileNotFoundError:
        return {}
    return {k["sig"]: k for k in data.get("known", []) if k["property"] == prop}


# ---------------------------------------------------------------------------
# run context
# ---------------------------------------------------------------------------
class Ctx:
    def __init__(self, prop, tier, seed):
        self.prop = prop
        self.tier = tier
        self.seed = seed
        self.t0 = time.time()
        self.acc = Acc()
        self.levels = []           # [{"name":..., "completed":bool, "evaluations":int, "wall_s":float}]
        self.notes = {}
        self.assumptions = []
        self.rule = ""
        self.alphabet = None
        self.budget_s = float(os.environ.get("VERIF_BUDGET_S", "0")) or (300 if tier == "quick" else 2700)

    @property
    def quick(self):
        return self.tier == "quick"

    def pick(self, quick, thorough):
        return quick if self.quick else thorough

    def deadline(self):
        return self.t0 + self.budget_s

    def out_of_time(self):
        return time.time() > self.deadline()

    def level(self, name, jobs, serial=False, always=False):
        """Run one iterated bound.  Returns True if it completed."""
        if not always and self.out_of_time():
            self.levels.append({"name": name, "completed": False, "evaluations": 0, "wall_s": 0.0, "skipped": True})
            return False
        t = time.time()
        before = self.acc.n
        _, completed = run_jobs(jobs, self.acc, None if always else self.deadline() + 30, serial=serial)
        self.levels.append({"name": name, "completed": completed, "evaluations": self.acc.n - before,
                            "wall_s": round(time.time() - t, 2)})
        return completed

    def selftest(self, ok, what):
        if not ok:
            raise InternalError("self-test failed: " + what)
        self.notes.setdefault("selftests", []).append(what)


def write_replay(prop, v):
    rdir = os.environ.get("VERIF_REPLAY_DIR") or os.path.join(ROOT, "replays")
    os.makedirs(rdir, exist_ok=True)
    body = {"property": prop, "sig": v["sig"], "message": v["message"], "case": v["case"],
            "observed": v.get("observed"), "expected": v.get("expected")}
    path = os.path.join(rdir, "%s-%s.json" % (prop, digest([v["sig"], v["case"]])))
    with open(path, "w", encoding="utf8") as f:
        json.dump(body, f, indent=1, ensure_ascii=False, default=repr)
        f.write("\n")
    return path


def finish(ctx: Ctx, extra_cov=None):
    """Write evidence, print verdict lines, return the exit code."""
    acc = ctx.acc
    known = load_known(ctx.prop)
    new_viol = []
    known_hit = []
    for sig, lst in sorted(acc.viol.items()):
        if sig in known:
            known_hit.append((sig, lst))
        else:
            new_viol.append((sig, lst))
    exhaustive = bool(ctx.levels) and all(l["completed"] for l in ctx.levels)
    cov = {
        "evaluations": acc.n,
        "distinct_nontrivial": acc.nontrivial,
        "rule": ctx.rule,
        "states": len(acc.states),
        "transitions": len(acc.trans),
        "traces_validated_against_impl": acc.validated,
        "samples": acc.samples or ["(no sample recorded)"],
        "exhaustive": exhaustive,
        "levels": ctx.levels,
        "distinct_outcomes": len(acc.outcomes),
        "outcome_histogram": {str(k): v for k, v in acc.outcomes.most_common(12)},
        "counters": dict(acc.counters),
        "maxima": acc.maxima,
        "alphabet": ctx.alphabet,
        "known_findings_hit": [s for s, _ in known_hit],
    }
    # control-state coverage of full-pipeline runs (mc.impl.Traced): which parser states were visited, in which an unexpected line / EOF was seen
    visited = sorted({st[0] for st in acc.states if isinstance(st, tuple) and len(st) == 4 and isinstance(st[0], int) and isinstance(st[1], tuple)})
    if visited:
        cov["parser_states_visited"] = visited
        cov["parser_states_with_unexpected_line"] = sorted({t[1] for t in acc.trans if isinstance(t, tuple) and t and t[0] == 'unexpected-in' and not t[2]})
        cov["parser_states_with_unexpected_eof"] = sorted({t[1] for t in acc.trans if isinstance(t, tuple) and t and t[0] == 'unexpected-in' and t[2]})
        cov["matcher_modes_visited"] = sorted({repr(st[1]) for st in acc.states if isinstance(st, tuple) and len(st) == 4 and isinstance(st[1], tuple)})
    cov.update(ctx.notes)
    if extra_cov:
        cov.update(extra_cov)
    ev = {
        "property_id": ctx.prop,
        "tier": ctx.tier,
        "seed": ctx.seed,
        "level": "model_checking",
        "coverage": cov,
        "assumptions": ctx.assumptions,
        "wall_s": round(time.time() - ctx.t0, 2),
        "violations": sum(1 for _ in new_viol),
    }
    edir = os.environ.get("VERIF_EVIDENCE_DIR") or os.path.join(ROOT, "evidence")
    os.makedirs(edir, exist_ok=True)
    path = os.path.join(edir, ctx.prop + ".json")
    tmp = path + ".tmp"
    with open(tmp, "w", encoding="utf8") as f:
        json.dump(ev, f, indent=1, ensure_ascii=False, default=repr)
        f.write("\n")
    os.replace(tmp, path)

    for sig, lst in known_hit:
        print("KNOWN-FINDING: property=%s %s (%s)" % (ctx.prop, known[sig]["what"], sig))
    print("%s tier=%s seed=%d evaluations=%d nontrivial=%d states=%d transitions=%d validated=%d outcomes=%d levels=%s wall=%.1fs"
          % (ctx.prop, ctx.tier, ctx.seed, acc.n, acc.nontrivial, len(acc.states), len(acc.trans), acc.validated,
             len(acc.outcomes), ",".join("%s:%s" % (l["name"], "ok" if l["completed"] else "CAPPED") for l in ctx.levels),
             time.time() - ctx.t0))
    if new_viol:
        for sig, lst in new_viol:
            v = lst[0]
            p = write_replay(ctx.prop, v)
            print("  [%s] %s" % (sig, str(v["message"])[:1500]))
            print("  case: %s" % json.dumps(v["case"], ensure_ascii=False, default=repr)[:1500])
            print("VIOLATION property=%s replay=%s" % (ctx.prop, p))
        return 1
    return 0
