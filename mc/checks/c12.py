"""C12 - table cells are split and unescaped as documented; tables are rectangular.

a  every row string over the character classes the splitter distinguishes (pipe, backslash, 'n', two blanks,
   other) up to a length bound, fed to GherkinLine.table_cells and compared with an explicit 3-state splitter
   written from the README (texts between consecutive unescaped pipes; \\n, \\|, \\\\; other pairs kept; blanks
   that are not line feeds trimmed) - values and code-point columns
b  the same strings (shorter bound) as a data-table row and as an examples row through the whole parser
c  round trip: every cell text over {a, |, \\, LF, inner blank} without blanks at its ends, written with the
   three escapes, reads back unchanged
d  rectangularity: every table of <= 4 rows with per-row cell counts in {0..3} as data table and as examples
   table, in first and in non-first position: accepted iff all counts are equal, else exactly one error at the
   first deviating row
"""
from __future__ import annotations

import itertools

from .. import core
from ..core import Acc, worker
from .. import ref as R
from .. import impl as I

from gherkin.gherkin_line import GherkinLine

OTHERS = ['a', 'é', '\U0001F600', '0']
BLANK2 = ['\t', '\xa0', '\u3000']


def alphabet(seed):
    return ['|', '\\', 'n', ' ', BLANK2[seed % 3], OTHERS[seed % 4]]


def ref_cells(s):
    tr = s.lstrip()
    return R.split_cells(tr, len(s) - len(tr))


def splitter_trace(s, acc):
    """Control states of the documented splitter on this row (for coverage accounting only)."""
    st = 'before'
    for c in s.strip():
        cls = c if c in '|\\n' else ('blank' if c.isspace() else 'other')
        if st == 'esc':
            nxt = 'cell'
        elif c == '\\':
            nxt = 'esc' if st != 'before' else 'before-esc'
        elif c == '|':
            nxt = 'cell'
        else:
            nxt = st
        if st == 'before-esc':
            nxt = 'before'
        acc.trans.add((st, cls, nxt))
        acc.states.add(nxt)
        st = nxt


def check_row(s, acc):
    acc.n += 1
    acc.validated += 1
    case = {'kind': 'row', 'row': s}
    try:
        got = [(c['column'], c['text']) for c in GherkinLine(s, 1).table_cells]
    except Exception as e:  # noqa: BLE001
        acc.violation('cells-exception', case, 'table_cells raised %s: %s' % (type(e).__name__, e))
        return
    exp = ref_cells(s)
    if len(exp) > 0:
        acc.nontrivial += 1
    acc.outcomes[len(exp)] += 1
    if [g[1] for g in got] != [e[1] for e in exp]:
        acc.violation('cell-values', case, 'cell values differ from the documented splitting', observed=[g[1] for g in got], expected=[e[1] for e in exp])
    elif [g[0] for g in got] != [e[0] for e in exp]:
        acc.violation('cell-columns', case, 'cell columns differ', observed=[g[0] for g in got], expected=[e[0] for e in exp])


@worker
def job_rows(seed, first, maxlen):
    acc = Acc()
    al = alphabet(seed)
    s = ''
    for n in range(maxlen):
        for w in itertools.product(al, repeat=n):
            s = al[first] + ''.join(w)
            check_row(s, acc)
            if n <= 4:
                splitter_trace(s, acc)
    acc.sample({'row': s})
    return acc


HOSTS = {
    'datatable': 'Feature: f\n  Scenario: s\n    Given g\n      |%s\n',
    'examples': 'Feature: f\n  Scenario Outline: s\n    Given g\n    Examples:\n      |%s\n',
    'second-row': 'Feature: f\n  Background:\n    Given g\n \t| a |\n \t|%s\n',
}


def check_doc(text, acc, what):
    """Whole-pipeline comparison with the reference (AST incl. locations, or the error list)."""
    acc.n += 1
    acc.validated += 1
    case = {'kind': 'text', 'text': text}
    a = I.parse(text, acc=acc)
    r = R.reference(text, compile_=False)
    if a[0] == 'exc':
        acc.violation('foreign-exception', case, 'parser raised ' + a[1])
        return None
    if (a[0] == 'ok') != (r.status == 'ok'):
        acc.violation(what + '-accept', case, 'parser %s, reference %s' % (a[0], r.status), observed=a[1] if a[0] != 'ok' else None, expected=r.errors)
        return None
    if a[0] == 'ok':
        rd = dict(r.doc)
        rd.pop('uri', None)
        if a[1] != rd:
            acc.violation(what + '-ast', case, 'AST differs from the reference', observed=_tables(a[1]), expected=_tables(rd))
    else:
        if [e[:3] for e in a[1]] != r.errors:
            acc.violation(what + '-errors', case, 'errors differ from the reference', observed=[e[:3] for e in a[1]], expected=r.errors)
    return a


def _tables(doc):
    out = []

    def walk(o):
        if isinstance(o, dict):
            if 'cells' in o:
                out.append([(c['location'].get('column'), c['value']) for c in o['cells']])
            for v in o.values():
                walk(v)
        elif isinstance(o, list):
            for v in o:
                walk(v)
    walk(doc)
    return out


@worker
def job_parser_rows(seed, host, first, maxlen):
    acc = Acc()
    al = alphabet(seed)
    t = None
    for n in range(maxlen):
        for w in itertools.product(al, repeat=n):
            t = HOSTS[host] % (al[first] + ''.join(w))
            a = check_doc(t, acc, 'row')
            if a and a[0] == 'ok':
                acc.nontrivial += 1
    acc.sample({'text': t})
    return acc


def escape(cell):
    return cell.replace('\\', '\\\\').replace('|', '\\|').replace('\n', '\\n')


@worker
def job_roundtrip(first, maxlen):
    acc = Acc()
    al = ['a', '|', '\\', '\n', ' ', 'n']
    t = None
    for n in range(maxlen):
        for w in itertools.product(al, repeat=n):
            cell = al[first] + ''.join(w)
            if cell != cell.strip(' '):
                continue
            for pad in ('', ' ', ' \t'):
                row = '|' + pad + escape(cell) + pad + '|' + pad + escape(cell[::-1].strip(' ')) + '|'
                want = [cell, cell[::-1].strip(' ')]
                acc.n += 1
                acc.validated += 1
                acc.nontrivial += 1
                case = {'kind': 'roundtrip', 'cell': cell, 'row': row}
                try:
                    got = [c['text'] for c in GherkinLine('   ' + row, 1).table_cells]
                except Exception as e:  # noqa: BLE001
                    acc.violation('cells-exception', case, 'table_cells raised %s: %s' % (type(e).__name__, e))
                    continue
                if got != want:
                    acc.violation('round-trip', case, 'escaped cell does not read back unchanged', observed=got, expected=want)
                t = 'Feature: f\n  Scenario: s\n    Given g\n      ' + row + '\n'
                a = I.parse(t)
                acc.n += 1
                if a[0] != 'ok' or [c['value'] for c in a[1]['feature']['children'][0]['scenario']['steps'][0]['dataTable']['rows'][0]['cells']] != want:
                    acc.violation('round-trip', {'kind': 'text', 'text': t}, 'escaped cell does not read back unchanged through the parser',
                                  observed=a[1] if a[0] != 'ok' else _tables(a[1]), expected=want)
    acc.sample({'text': t})
    return acc


def render_row(n, tag):
    return '      |' + ''.join(' %s%d |' % (tag, i) for i in range(n)) + '\n'


@worker
def job_rect(nrows):
    acc = Acc()
    t = None
    for counts in itertools.product(range(4), repeat=nrows):
        for host in ('datatable', 'examples'):
            for position in ('first', 'second'):
                rows = ''.join(render_row(c, 'r%d' % i) for i, c in enumerate(counts))
                if host == 'datatable':
                    pre = 'Feature: f\n  Scenario: s\n    Given g\n'
                    if position == 'second':
                        pre += '      | ok |\n    And h\n'
                else:
                    pre = 'Feature: f\n  Scenario Outline: s\n    Given g\n'
                    if position == 'second':
                        pre += '    Examples:\n      | ok |\n      | 1 |\n'
                    pre += '    Examples:\n'
                t = pre + rows + '    \n'
                first_line = pre.count('\n') + 1
                acc.n += 1
                acc.validated += 1
                acc.nontrivial += 1
                case = {'kind': 'text', 'text': t}
                a = I.parse(t, acc=acc)
                dev = next((i for i, c in enumerate(counts) if c != counts[0]), None)
                if a[0] == 'exc':
                    acc.violation('foreign-exception', case, 'parser raised ' + a[1])
                elif dev is None:
                    if a[0] != 'ok':
                        acc.violation('rectangular-rejected', case, 'rectangular table rejected', observed=a[1])
                else:
                    want = [(first_line + dev, 7, '(%d:7): inconsistent cell count within the table' % (first_line + dev))]
                    if a[0] == 'ok':
                        acc.violation('ragged-accepted', case, 'ragged table accepted (row cell counts %s)' % (counts,))
                    elif [e[:3] for e in a[1]] != want:
                        acc.violation('ragged-error', case, 'ragged table: expected exactly one error at the first deviating row',
                                      observed=[e[:3] for e in a[1]], expected=want)
                    s = I.parse(t, stop=True)
                    if s[0] != 'error1' or s[1][0][:3] != want[0]:
                        acc.violation('ragged-error', case, 'stop-at-first-error mode: expected the ragged-table error', observed=s[1], expected=want)
                check_doc(t, acc, 'table')
    acc.sample({'text': t})
    return acc


def unicode_blanks():
    return [chr(c) for c in range(0x110000) if not (0xD800 <= c <= 0xDFFF) and chr(c).isspace() and chr(c) != '\n']


@worker
def job_blanks(chunk):
    """Every Unicode blank (str.isspace, line feed excluded) around, inside and instead of cell text; plus a few non-blanks that look like blanks."""
    acc = Acc()
    s = None
    lookalikes = ['\u200b', '\ufeff', '\u2060', '\u180e', '\u00ad']
    for c in chunk + (lookalikes if chunk and chunk[0] == ' ' else []):
        for pat in ('|%sa%s|', '|a%sb|', '|%s|', '|%s%sa|b%s%s|', '| %s\\n%s |', '%s| a |%s', '|\\%s|', '|a|%s'):
            s = pat.replace('%s', c)
            check_row(s, acc)
            for host in ('datatable', 'second-row'):
                if s.startswith('|'):
                    check_doc(HOSTS[host] % s[1:], acc, 'row')
    acc.sample({'row': s})
    return acc


@worker
def job_wide(width):
    """Tables around 256 cells per row (small-integer identity, buffer sizes): rectangular ones are accepted with every cell in
    place, a row that deviates by one cell is reported at that row."""
    acc = Acc()
    t = None
    for host in ('datatable', 'examples'):
        pre = 'Feature: f\n  Scenario: s\n    Given g\n' if host == 'datatable' else 'Feature: f\n  Scenario Outline: s\n    Given g\n    Examples:\n'
        first = pre.count('\n') + 1
        for counts in ((width, width), (width, width, width), (width, width + 1), (width, width, width - 1), (width + 1, width, width + 1)):
            t = pre + ''.join('      |' + ''.join(' c%d |' % i for i in range(c)) + '\n' for c in counts)
            case = {'kind': 'text', 'text': t if len(t) < 600 else t[:300] + '...'}
            acc.n += 1
            acc.validated += 1
            acc.nontrivial += 1
            a = I.parse(t)
            dev = next((i for i, c in enumerate(counts) if c != counts[0]), None)
            if a[0] == 'exc':
                acc.violation('foreign-exception', case, 'parser raised ' + a[1])
            elif dev is None:
                if a[0] != 'ok':
                    acc.violation('rectangular-rejected', case, 'rectangular table of %d cells per row rejected' % width, observed=a[1][:2])
            else:
                want = [(first + dev, 7, '(%d:7): inconsistent cell count within the table' % (first + dev))]
                if a[0] == 'ok':
                    acc.violation('ragged-accepted', case, 'ragged table accepted (row cell counts %s)' % (counts,))
                elif [e[:3] for e in a[1]] != want:
                    acc.violation('ragged-error', case, 'ragged wide table: expected exactly one error at the first deviating row', observed=[e[:3] for e in a[1]], expected=want)
            check_doc(t, acc, 'table')
    acc.sample({'text': (t or '')[:200]})
    return acc


UNITS = ['\\n', '\\|', '\\\\', 'a\\n', '\\|\\\\', 'x', ' \\n ', '\\n\\|\\\\']


@worker
def job_long_cells(ui):
    """One cell made of n repetitions of an escape unit, n = 0..300 (every count, so every internal limit on the number of escapes /
    characters per cell lies inside), alone and between two ordinary cells; via table_cells and through the parser."""
    acc = Acc()
    u = UNITS[ui]
    t = None
    for n in range(0, 301):
        for row in ('| ' + u * n + ' |', '|k|' + u * n + '|' + u * (n // 2) + '| z |'):
            check_row('    ' + row, acc)
            if n % 8 in (0, 1):
                t = 'Feature: f\n  Scenario: s\n    Given g\n      ' + row + '\n'
                check_doc(t, acc, 'table')
    acc.sample({'text': (t or '')[:120]})
    return acc


def run(ctx):
    probs = R.selftest()
    ctx.selftest(not probs, 'reference pipeline reproduces the acceptance corpus (%s)' % (probs[:3] or 'ok'))
    seed = ctx.seed
    al = alphabet(seed)
    ctx.alphabet = {'row_characters': al, 'roundtrip_characters': ['a', '|', '\\', '\n', ' ', 'n'], 'hosts': list(HOSTS)}
    ctx.rule = ('all row strings over the character classes up to the length bound (distinct by construction); non-trivial = rows with at least one cell, '
                'round-trip cells, table shapes')
    ctx.assumptions = ['one representative per character class the splitter distinguishes; VERIF_SEED rotates the representatives of "other" and of the second blank']
    n1 = ctx.pick(7, 9)
    ctx.level('rows len<=%d -> table_cells' % (n1 + 1), [job_rows.job(seed, i, n1 + 1) for i in range(len(al))] )
    n2 = ctx.pick(5, 6)
    ctx.level('rows len<=%d through parser' % n2, [job_parser_rows.job(seed, h, i, n2) for h in HOSTS for i in range(len(al))])
    n3 = ctx.pick(4, 5)
    ctx.level('round-trip cells len<=%d' % n3, [job_roundtrip.job(i, n3) for i in range(6)])
    ub = unicode_blanks()
    ctx.notes['unicode_blanks'] = len(ub)
    ctx.level('every Unicode blank in cells (%d characters)' % len(ub), [job_blanks.job(ub[i:i + 4]) for i in range(0, len(ub), 4)])
    ctx.level('table shapes rows<=4', [job_rect.job(n) for n in (1, 2, 3, 4)])
    ctx.level('cells of 0..300 escape units', [job_long_cells.job(i) for i in range(len(UNITS))])
    ctx.level('wide tables (cells per row around 256 / 1000)', [job_wide.job(w) for w in (255, 256, 257, 258, 300, 1000)])


def replay(case):
    acc = Acc()
    if case.get('kind') == 'row':
        check_row(case['row'], acc)
    elif case.get('kind') == 'roundtrip':
        got = [c['text'] for c in GherkinLine('   ' + case['row'], 1).table_cells]
        if got[0] != case['cell']:
            acc.violation('round-trip', case, 'escaped cell does not read back unchanged', observed=got)
    else:
        check_doc(case['text'], acc, 'table')
    return [v[0]['message'] + ' observed=%r expected=%r' % (v[0].get('observed'), v[0].get('expected')) for v in acc.viol.values()]
