"""C08 - pickle tags are the feature, rule, scenario and examples tags, in that order.

Complete cross product of tag multiplicities {none, one, a duplicated name, two on one line, two lines} at each of
the four levels, one or two rules, one or two scenarios, zero to two examples blocks; names repeat across levels so
that inheritance cannot be confused with de-duplication.  Direct oracle from the statement + reference compiler."""
from __future__ import annotations

import itertools

from ..core import Acc
from .. import docmodel as M
from .. import astgen as A
from .. import pick as P

S = M.step
TL = M.tagline


def tag_menu(level):
    x = '@' + level
    return [
        lambda: [],
        lambda: [TL([x])],
        lambda: [TL(['@d', '@d'])],
        lambda: [TL([x + '1', '@d'])],
        lambda: [TL([x + '1']), TL(['@d', x + '2'], pre=[M.C('# c')])],
        lambda: [TL(['@' + level + '-<a>', '@<a>'])],          # tag text that spells a placeholder of the examples table: tags are not substituted
    ]


def shapes(family, quick):
    ft, rt, st, et = tag_menu('f'), tag_menu('r'), tag_menu('s'), tag_menu('e')
    ex_variants = [()]
    for a in et:
        ex_variants.append((a,))
    for a in et[:3] if quick else et:
        for b in et[1:3] if quick else et:
            ex_variants.append((a, b))

    def scen(tags, exv, name):
        if not exv:
            return M.scenario(name, [S('g')] if name != 's2' else [], tags=tags())
        exs = [M.examples('e%d' % i, [['a'], ['1'], ['2']] if i == 0 else [['a'], ['3']], tags=t()) for i, t in enumerate(exv)]
        if len(exv) == 2:
            # a tagged block without a table (and one with a header only) in front of the blocks that yield pickles
            exs = [M.examples('none', None, tags=[TL(['@no-table'])]), M.examples('hdr', [['a']], tags=[TL(['@header-only'])])] + exs
        return M.scenario(name, [S('g <a>')], exs, tags=tags(), outline=True)
    scen_variants = [(t, e) for t in st for e in ex_variants]
    reduced = [(t, ()) for t in st[:3]] + [(st[1], (et[1],))]
    if family == 'feature-level':
        for f in ft:
            for sv in scen_variants:
                for second in [None] + reduced:
                    yield M.feature('f', [scen(sv[0], sv[1], 's1')] + ([scen(second[0], second[1], 's2')] if second else []), tags=f())
    elif family == 'rules':
        for f in ft:
            for pre in [None] + reduced[:2]:
                for r in rt:
                    for sv in scen_variants:
                        for second in [None] + (reduced[:2] if quick else reduced):
                            for rule2 in (False, True):
                                rules = [M.rule('r1', [scen(sv[0], sv[1], 's1')] + ([scen(second[0], second[1], 's2')] if second else []), tags=r())]
                                if rule2:
                                    rules.append(M.rule('r2', [scen(st[3], (et[1],), 's3')], tags=[TL(['@r2', '@d'])]))
                                yield M.feature('f', ([scen(pre[0], pre[1], 's0')] if pre else []) + rules, tags=f())


def expected_tags(ast):
    out = []

    def pt(tags):
        return [{'astNodeId': t['id'], 'name': t['name']} for t in tags]

    def scen(sc, inherited):
        if not sc['examples']:
            out.append(pt(inherited + sc['tags']))
        else:
            for e in sc['examples']:
                if 'tableHeader' in e:
                    for r in e['tableBody']:
                        out.append(pt(inherited + sc['tags'] + e['tags']))
    f = ast.get('feature')
    if not f:
        return out
    for ch in f['children']:
        if 'scenario' in ch:
            scen(ch['scenario'], f['tags'])
        elif 'rule' in ch:
            for rc in ch['rule']['children']:
                if 'scenario' in rc:
                    scen(rc['scenario'], f['tags'] + ch['rule']['tags'])
    return out


def check_ast(ast, acc, case):
    acc.n += 1
    acc.validated += 1
    got, exp, before, after = P.compile_both(ast)
    if got[0] != 'ok':
        acc.violation('compile-exception', case, 'Compiler.compile raised ' + got[1])
        return
    want = expected_tags(ast)
    if any(want):
        acc.nontrivial += 1
    for w in want:
        acc.states.add(min(len(w), 12))
        acc.trans.add(tuple(t['name'] for t in w))
    acc.outcomes[min(max([len(w) for w in want] or [0]), 10)] += 1
    for route, res in P.routes(ast, got):
        if res[0] != 'ok':
            acc.violation('compile-exception', case, 'Compiler.compile (%s) raised %s' % (route, res[1]))
            return
        tags = P.p_c08(res[1])
        if tags != want:
            i = next((i for i, (x, y) in enumerate(zip(tags, want)) if x != y), min(len(tags), len(want)))
            acc.violation('pickle-tags', case, '%s: pickle %d: tags are not feature + rule + scenario + examples tags in source order' % (route, i),
                          observed=tags[i:i + 1], expected=want[i:i + 1])
            return
        if not A.compare(acc, case, 'pickle-tags', route + ': pickle tags', tags, P.p_c08(exp)):
            return
    if after != before:
        acc.violation('input-modified', case, 'Compiler.compile modified the tags of the document it was given',
                      observed=[t['name'] for t in after.get('feature', {}).get('tags', [])], expected=[t['name'] for t in before.get('feature', {}).get('tags', [])])


def run(ctx):
    ctx.rule = ('tag multiplicities at feature / rule / scenario / examples level, complete cross product within the stated menus; AST route and parser route '
                '(tag lines on one or two lines with a comment in between: look-ahead paths); non-trivial = shapes with at least one tagged pickle')
    ctx.alphabet = {'tag_menu_per_level': ['none', 'one', 'duplicate name twice', 'two on a line (one shared name)', 'two lines with a comment between']}
    A.run_shapes(ctx, __name__, ['feature-level', 'rules'], (6, 7))
    # tags of two documents compiled by one Compiler at the same time (all interleavings at its id requests) stay apart
    from .c15 import job_compile_schedules, COMPILE_POOL
    m = len(COMPILE_POOL)
    ctx.level('one Compiler, two compilations: all interleavings at id requests', [job_compile_schedules.job(i, j) for i in range(m) for j in range(i, m)])


def replay(case):
    acc = Acc()
    check_ast(case['ast'], acc, case)
    return [v[0]['message'] + ' observed=%r expected=%r' % (v[0].get('observed'), v[0].get('expected')) for v in acc.viol.values()]
