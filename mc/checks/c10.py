"""C10 - every pickle step has a definite type derived from its keyword.

All sequences over the keyword types {Context, Action, Outcome, Conjunction(And), Conjunction(But), Unknown('*')} of
total length <= n, split in every way across feature background / rule background / scenario, for plain scenarios
and outlines; and, through the parser with real keywords, for every dialect every distinct step keyword after each of
Given / When / Then / '*' / nothing.  Oracle: fold from Unknown; conjunctions inherit; type never missing/None; plain
and outline agree."""
from __future__ import annotations

import itertools

from ..core import Acc, worker
from .. import docmodel as M
from .. import astgen as A
from .. import pick as P
from .. import impl as I
from .. import ref as R

S = M.step
KW = ['Given ', 'When ', 'Then ', 'And ', 'But ', '* ']
TYPES = {'Context', 'Action', 'Outcome', 'Unknown'}


def shapes(family, quick):
    n_max = 5 if quick else 6
    if family == 'sequences':
        for n in range(1, n_max + 1):
            for seq in itertools.product(KW if n <= (4 if quick else 5) else KW[:4] + KW[5:], repeat=n):
                for i in range(0, n):          # feature background takes seq[:i]
                    for j in range(i, n):      # rule background takes seq[i:j], own steps seq[j:] (at least one)
                        for outline in (None, 'two-rows', 'two-tables') if n <= 3 else (None, 'two-rows'):
                            own = [S('o%d' % k, kw=kw) for k, kw in enumerate(seq[j:])]
                            exs = [] if outline is None else [A.ex('two-rows')] if outline == 'two-rows' else [A.ex('one-row'), A.ex('two-rows', True)]
                            sc = M.scenario('s', own, exs, outline=outline is not None)
                            fb = [M.background('', [S('f%d' % k, kw=kw) for k, kw in enumerate(seq[:i])])] if i else []
                            if j > i:
                                yield M.feature('f', fb + [M.rule('r', [M.background('', [S('r%d' % k, kw=kw) for k, kw in enumerate(seq[i:j])]), sc])])
                            else:
                                yield M.feature('f', fb + [sc])


def fold(types):
    out = []
    last = 'Unknown'
    for t in types:
        if t != 'Conjunction':
            last = t
        out.append(last)
    return out


def expected_types(ast):
    out = []

    def scen(sc, bg):
        seq = fold([s['keywordType'] for s in bg + sc['steps']]) if sc['steps'] else []
        if not sc['examples']:
            out.append(seq)
        else:
            for e in sc['examples']:
                if 'tableHeader' in e:
                    for _ in e['tableBody']:
                        out.append(list(seq))
    f = ast.get('feature')
    if not f:
        return out
    fbg = []
    for ch in f['children']:
        if 'background' in ch:
            fbg = fbg + ch['background']['steps']
        elif 'scenario' in ch:
            scen(ch['scenario'], fbg)
        else:
            rbg = list(fbg)
            for rc in ch['rule']['children']:
                if 'background' in rc:
                    rbg = rbg + rc['background']['steps']
                else:
                    scen(rc['scenario'], rbg)
    return out


def check_ast(ast, acc, case):
    acc.n += 1
    acc.validated += 1
    got, exp, before, after = P.compile_both(ast)
    if got[0] != 'ok':
        acc.violation('compile-exception', case, 'Compiler.compile raised ' + got[1])
        return
    want = expected_types(ast)
    if any(want):
        acc.nontrivial += 1
    for w in want:
        acc.outcomes[w[0] if w else 'no-steps'] += 1
        prev = 'start'
        for t in w:
            acc.states.add(t)
            acc.trans.add((prev, t))
            prev = t
    for route, res in P.routes(ast, got):
        if res[0] != 'ok':
            acc.violation('compile-exception', case, 'Compiler.compile (%s) raised %s' % (route, res[1]))
            return
        types = P.p_c10(res[1])
        for p in types:
            for t in p:
                if t not in TYPES:
                    acc.violation('type-vocabulary', case, '%s: pickle step type %r is not one of Unknown, Context, Action, Outcome' % (route, t), observed=types)
                    return
        if types != want:
            i = next((i for i, (x, y) in enumerate(zip(types, want)) if x != y), min(len(types), len(want)))
            acc.violation('step-types', case, '%s: pickle %d: step types are not the fold of the keyword types' % (route, i), observed=types[i:i + 1], expected=want[i:i + 1])
            return


@worker
def job_dialect(names):
    """Through the parser with real keywords: every distinct step keyword after each of Given/When/Then/*/nothing."""
    acc = Acc()
    text = None
    for d in names:
        spec = M.DIALECTS[d]
        kws = []
        for role in ('given', 'when', 'then', 'and', 'but'):
            for k in spec[role]:
                if k not in kws:
                    kws.append(k)
        prevs = [None] + [next(k for k in spec[r] if k != '* ') for r in ('given', 'when', 'then')] + (['* '] if '* ' in kws else [])
        scs = []
        for prev in prevs:
            for k in kws:
                steps = ([S('p', kw=prev)] if prev else []) + [S('x', kw=k)]
                scs.append(M.scenario('s', steps))
                scs.append(M.scenario('o', steps, [A.ex('one-row')], outline=True))
        model = M.feature('f', scs, language=d, header=[('language', '#language: ' + d)])
        text, exp, r = M.render(model)
        a = I.parse(text)
        if a[0] != 'ok':
            acc.violation('dialect-document-rejected', {'kind': 'text', 'text': text}, 'document with every step keyword of dialect %s rejected: %s' % (d, a[1][:2]))
            continue
        check_ast(a[1], acc, {'kind': 'ast', 'ast': a[1], 'dialect': d})
        # the parser's keyword types must be the dialect table's categories (else the fold above is vacuous)
        got_kt = [s['keywordType'] for ch in a[1]['feature']['children'] for s in ch['scenario']['steps']]
        exp_kt = []
        lx = R.RefLexer(d)
        for ch in exp['feature']['children']:
            for st in ch['scenario']['steps']:
                t = R.Tok(1, st['keyword'] + st['text'] + '\n')
                lx.match('StepLine', t)        # first listed keyword that prefixes the line, given/when/then/and/but order
                exp_kt.append(t.ktype)
        if got_kt != exp_kt:
            acc.violation('keyword-type', {'kind': 'text', 'text': text}, 'keyword types of dialect %s differ from the language table categories' % d)
        # the same document through a parser / matcher pair that has just been through rejected documents (unknown language among them)
        text2 = M.render(M.feature('f', scs), M.Layout(dialect=d))[0]       # no header: the dialect is the matcher's default
        for stop, src, dflt in ((False, text, 'en'), (True, text, 'en'), (False, text2, d), (True, text2, d)):
            b = I.parse_reused(src, dflt, stop=stop, poison=True)
            acc.n += 1
            if b[0] != 'ok' or [s['keywordType'] for ch in b[1]['feature']['children'] for s in ch['scenario']['steps']] != exp_kt:
                acc.violation('keyword-type', {'kind': 'text', 'text': src, 'route': 'reused', 'stop': stop, 'default': dflt},
                              'dialect %s: a parser and token matcher that parsed rejected documents before report other keyword types than the language table' % d)
            else:
                check_ast(b[1], acc, {'kind': 'ast', 'ast': b[1], 'dialect': d, 'route': 'reused'})
    acc.sample({'family': 'dialect', 'text': (text or '')[:600]})
    return acc


def shared_spellings():
    """[(keyword, dialect1, dialect2)] where the same spelling belongs to different step categories in the two dialects."""
    cat = {}
    for d, spec in M.DIALECTS.items():
        for role in ('given', 'when', 'then', 'and', 'but'):
            for k in spec[role]:
                cat.setdefault(k, {}).setdefault(d, set()).add(M.STEP_TYPE[role])
    out = []
    for k, per in cat.items():
        ds = sorted(per)
        for a in ds:
            for b in ds:
                if a != b and per[a] != per[b]:
                    out.append((k, a, b))
    return out


@worker
def job_shared(pairs):
    """Two documents in different dialects, one after the other in the same process, that use a keyword spelled the same in both."""
    acc = Acc()
    text = None
    for (k, d1, d2) in pairs:
        for d in (d1, d2):
            given = next(x for x in M.DIALECTS[d]['given'] if x != '* ')
            steps = [S('p', kw=given), S('x', kw=k)]
            model = M.feature('f', [M.scenario('s', steps), M.scenario('o', steps, [A.ex('two-rows')], outline=True)], language=d, header=[('language', '#language: ' + d)])
            text, exp, r = M.render(model)
            a = I.parse(text)
            if a[0] != 'ok':
                acc.violation('dialect-document-rejected', {'kind': 'text', 'text': text}, 'document rejected: %s' % (a[1][:2],))
                continue
            # the same document through ONE matcher that is taken through both dialects by their headers
            b = I.parse_reused(text, 'en')
            if b[0] != 'ok' or [s['keywordType'] for ch in b[1]['feature']['children'] for s in ch['scenario']['steps']] != \
                    [s['keywordType'] for ch in a[1]['feature']['children'] for s in ch['scenario']['steps']]:
                acc.violation('keyword-type', {'kind': 'text', 'text': text, 'after_dialect': d1 if d == d2 else None},
                              'keyword %r in dialect %s: a token matcher that switched dialects before (%s) reports other keyword types than a fresh one' % (k, d, d1))
            lx = R.RefLexer(d)
            want = []
            for st in steps:
                t = R.Tok(1, st['kw'] + st['text'] + '\n')
                lx.match('StepLine', t)
                want.append(t.ktype)
            got = [s['keywordType'] for s in a[1]['feature']['children'][0]['scenario']['steps']]
            acc.n += 1
            acc.validated += 1
            acc.nontrivial += 1
            if got != want:
                acc.violation('keyword-type', {'kind': 'text', 'text': text, 'after_dialect': d1 if d == d2 else None},
                              'keyword %r in dialect %s (parsed after a document in %s): keyword types %s, language table says %s' % (k, d, d1, got, want))
            check_ast(a[1], acc, {'kind': 'ast', 'ast': a[1], 'dialect': d})
    acc.sample({'family': 'shared spelling', 'text': text})
    return acc


def run(ctx):
    ctx.rule = ('keyword-type sequences of total length <= n split in every way across feature background / rule background / scenario, plain and outline, AST and parser route; '
                'all 80 dialects x every distinct step keyword x 5 predecessors through the parser; non-trivial = pickles with at least one step')
    ctx.alphabet = {'keywords': KW, 'types': sorted(TYPES)}
    A.run_shapes(ctx, __name__, ['sequences'], (6, 7))
    names = sorted(M.DIALECTS)
    ctx.level('dialects x keywords x predecessors', [job_dialect.job(names[i:i + 5]) for i in range(0, len(names), 5)])
    sp = shared_spellings()
    ctx.notes['shared_spellings'] = len(sp)
    ctx.level('dialect pairs sharing a keyword spelling', [job_shared.job(sp[i:i + 40]) for i in range(0, len(sp), 40)])


def replay(case):
    acc = Acc()
    if 'ast' in case:
        check_ast(case['ast'], acc, case)
    elif case.get('route') == 'reused':
        d = case.get('default', 'en')
        a = I.parse(case['text'], default=d)
        b = I.parse_reused(case['text'], d, stop=case.get('stop', False), poison=True)
        kt = lambda r: [s['keywordType'] for ch in r[1]['feature']['children'] for s in ch['scenario']['steps']] if r[0] == 'ok' else r  # noqa: E731
        if kt(a) != kt(b):
            return ['keyword types after a history of rejected documents %r differ from those of fresh instances %r' % (kt(b), kt(a))]
    else:
        a = I.parse(case['text'])
        if a[0] == 'ok':
            check_ast(a[1], acc, case)
    return [v[0]['message'] + ' observed=%r expected=%r' % (v[0].get('observed'), v[0].get('expected')) for v in acc.viol.values()]
