"""C01 - the parse/compile/stream pipeline is total, fails only with typed located errors, does linear work.

Intrinsic oracle on every input of four bounded-exhaustive spaces:
  A  lines from every control state (witness prefix per parser state / matcher mode, all suffixes <= K lines)
  B  error-cap families (runs of 9..13 faulty lines after every witness prefix)
  C  all strings <= n over small adversarial character alphabets placed in slots (whole source, tag line, table
     row, examples header/body with placeholders that really fire, language header, doc string delimiter)
  D  code points: every Unicode scalar value (thorough) / every code point at which a predicate used by the code
     changes value (quick) in four one-character slots
plus growth families (prefix . line^n . tail, n = 25, 50, 100, 200) on which the number of line-matching
operations must be exactly linear in n.
"""
from __future__ import annotations

import itertools
import os
import sys

from .. import core
from ..core import Acc, worker
from .. import impl as I
from .. import docspace as DS

from gherkin.parser import Parser
from gherkin.ast_builder import AstBuilder
from gherkin.token_matcher import TokenMatcher
from gherkin.pickles.compiler import Compiler
from gherkin.stream.id_generator import IdGenerator
from gherkin.stream.gherkin_events import GherkinEvents
from gherkin.errors import CompositeParserException, ParserException

CALLS_PER_LINE = 64


class BudgetExceeded(BaseException):
    pass


class CountingScanner(I.StringScanner):
    def __init__(self, text, nlines):
        super().__init__(text)
        self.reads = 0
        self.limit = 4 * (nlines + 4)

    def read(self):
        self.reads += 1
        if self.reads > self.limit:
            raise BudgetExceeded('scanner read %d times for a document of %d lines' % (self.reads, self.limit // 4 - 4))
        return super().read()


class CountingMatcher(TokenMatcher):
    calls = 0
    scanner = None

    def _count(self):
        self.calls += 1
        if self.calls > CALLS_PER_LINE * (self.scanner.reads + 1):
            raise BudgetExceeded('%d line-matching operations after %d lines read' % (self.calls, self.scanner.reads))


def _wrap(name):
    orig = getattr(TokenMatcher, name)

    def f(self, token):
        self._count()
        return orig(self, token)
    f.__name__ = name
    return f


for _n in dir(TokenMatcher):
    if _n.startswith('match_'):
        setattr(CountingMatcher, _n, _wrap(_n))

ENVELOPES = {'source', 'gherkinDocument', 'pickle', 'parseError'}


def n_lines(text):
    return text.count('\n') + (0 if text.endswith('\n') or text == '' else 1)


def valid_error(e):
    if not isinstance(e, ParserException):
        return 'error object of type %s' % type(e).__name__
    loc = getattr(e, 'location', None)
    if not isinstance(loc, dict) or not isinstance(loc.get('line'), int) or isinstance(loc.get('line'), bool) or loc['line'] < 1:
        return 'error without a source location: %r' % (loc,)
    if 'column' in loc and (not isinstance(loc['column'], int) or loc['column'] < 1):
        return 'error with a non-positive column: %r' % (loc,)
    return None


def check_text(text, acc, want_calls=False):
    """Intrinsic totality oracle on one source text.  Returns the number of match calls of the collecting parse."""
    case = {'kind': 'text', 'text': text}
    nl = n_lines(text)
    acc.n += 1
    acc.validated += 1          # exploration runs on the implementation itself: every execution is judged by the oracle
    known_path = os.path.exists(text) if text and len(text) < 256 and '\x00' not in text else False
    if known_path:
        # the text names an existing path: only the plain-string API is exercised (finding D1); an in-memory scanner
        # for such a text would have to reach into TokenScanner's internals
        return _stream_only(text, acc, case)
    # 1. collecting mode with counters, then compile
    ig = IdGenerator()
    p = Parser(AstBuilder(ig))
    I.Traced(p, acc)
    m = CountingMatcher()
    doc = None
    outcome = None
    sc = None
    try:
        sc = CountingScanner(text, nl)
        m.scanner = sc
        doc = p.parse(sc, m)
        outcome = 'document'
    except CompositeParserException as e:
        outcome = 'errors:%d' % len(e.errors)
        if not (1 <= len(e.errors) <= 11):
            acc.violation('error-count', case, 'parser error carries %d errors (must be 1..11)' % len(e.errors))
        for x in e.errors:
            bad = valid_error(x)
            if bad:
                acc.violation('untyped-or-unlocated-error', case, bad)
    except BudgetExceeded as e:
        acc.violation('superlinear-or-hang', case, str(e))
        return None
    except RecursionError as e:
        acc.violation('foreign-exception', case, 'collecting parse raised RecursionError')
        return None
    except Exception as e:  # noqa: BLE001
        acc.violation('foreign-exception', case, 'collecting parse raised %s: %s' % (type(e).__name__, e))
        outcome = 'exc'
    acc.outcomes[outcome] += 1
    if sc is None:
        return None
    acc.maximum('match_calls_per_line_read', m.calls / max(1, sc.reads))
    if outcome == 'document' and not isinstance(doc, dict):
        acc.violation('document-type', case, 'Parser.parse returned %r instead of a document' % (doc,))
        doc = None
    if sc.reads != nl + 1 and outcome == 'document':
        acc.violation('lines-read', case, 'accepted %d-line document but scanner was read %d times' % (nl, sc.reads))
    if doc is not None:
        acc.nontrivial += 1
        if not isinstance(doc, dict):
            acc.violation('document-type', case, 'parse returned %s' % type(doc).__name__)
        else:
            d = dict(doc)
            d['uri'] = 'u'
            try:
                pk = Compiler(ig).compile(d)
                if not isinstance(pk, list) or not all(isinstance(x, dict) for x in pk):
                    acc.violation('pickles-type', case, 'compile did not return a list of pickles: %r' % (pk,))
            except Exception as e:  # noqa: BLE001
                acc.violation('foreign-exception', case, 'compile raised %s: %s' % (type(e).__name__, e))
    # 2. stop-at-first-error mode
    p2 = Parser()
    p2.stop_at_first_error = True
    try:
        p2.parse(I.StringScanner(text))
        if outcome is not None and outcome.startswith('errors'):
            acc.violation('modes-disagree', case, 'stop-at-first-error accepts what collecting mode rejects')
    except CompositeParserException as e:
        acc.violation('stop-mode-type', case, 'stop-at-first-error raised a composite error')
    except ParserException as e:
        bad = valid_error(e)
        if bad:
            acc.violation('untyped-or-unlocated-error', case, 'stop mode: ' + bad)
        if outcome == 'document':
            acc.violation('modes-disagree', case, 'stop-at-first-error rejects what collecting mode accepts: %s' % e)
    except Exception as e:  # noqa: BLE001
        acc.violation('foreign-exception', case, 'stop-at-first-error parse raised %s: %s' % (type(e).__name__, e))
    # 3. the stream API with the text given as the library's users give it (a plain string)
    ge = GherkinEvents(GherkinEvents.Options(print_source=True, print_ast=True, print_pickles=True))
    try:
        evs = list(ge.enum({'source': {'uri': 'u', 'data': text, 'mediaType': 'text/x.cucumber.gherkin+plain'}}))
        for e in evs:
            if not isinstance(e, dict) or len(e) != 1 or next(iter(e)) not in ENVELOPES:
                acc.violation('envelope-kind', case, 'stream yielded %r' % (e,))
                break
        kinds = [next(iter(e)) for e in evs if isinstance(e, dict) and e]
        if not known_path:
            if outcome == 'document' and ('parseError' in kinds or 'gherkinDocument' not in kinds):
                acc.violation('stream-vs-parse', case, 'stream envelopes %s for a document Parser.parse accepts' % kinds)
            if outcome and outcome.startswith('errors') and set(kinds) != {'parseError'}:
                acc.violation('stream-vs-parse', case, 'stream envelopes %s for a document Parser.parse rejects' % kinds)
        elif ('parseError' in kinds) != bool(outcome and outcome.startswith('errors')):
            acc.violation('D1-source-text-names-existing-path', case,
                          'source text %r names an existing path: the stream parsed the content of that path instead of the text' % text)
    except Exception as e:  # noqa: BLE001
        if known_path:
            acc.violation('D1-source-text-names-existing-path', case,
                          'source text %r names an existing path: TokenScanner opened it as a file: %s: %s' % (text, type(e).__name__, e))
        else:
            acc.violation('foreign-exception', case, 'stream raised %s: %s' % (type(e).__name__, e))
    # 3b. accepted sources: the stream with the document envelope switched off (pickles only) and with everything switched off
    if outcome == 'document' and not known_path:
        for opts in ((False, False, True), (True, False, False)):
            ge = GherkinEvents(GherkinEvents.Options(print_source=opts[0], print_ast=opts[1], print_pickles=opts[2]))
            try:
                evs = list(ge.enum({'source': {'uri': 'u', 'data': text, 'mediaType': 'text/x.cucumber.gherkin+plain'}}))
                for e in evs:
                    if not isinstance(e, dict) or len(e) != 1 or next(iter(e)) not in ENVELOPES or next(iter(e)) == 'parseError':
                        acc.violation('envelope-kind', case, 'stream with options %s yielded %r for an accepted source' % (opts, str(e)[:80]))
                        break
            except Exception as e:  # noqa: BLE001
                acc.violation('foreign-exception', case, 'stream with options %s raised %s: %s' % (opts, type(e).__name__, e))
    # 4. the stream API with its parser switched to stop-at-first-error (rejected sources: the other exception class travels through enum)
    if outcome and outcome.startswith('errors') and not known_path:
        ge = GherkinEvents(GherkinEvents.Options(print_source=True, print_ast=True, print_pickles=True))
        ge.parser.stop_at_first_error = True
        try:
            evs = list(ge.enum({'source': {'uri': 'u', 'data': text, 'mediaType': 'text/x.cucumber.gherkin+plain'}}))
            kinds = [next(iter(e)) for e in evs if isinstance(e, dict) and len(e) == 1]
            if kinds != ['parseError'] or len(evs) != 1:
                acc.violation('stream-vs-parse', case, 'stream whose parser stops at the first error yielded %s for a rejected source (expected one parseError envelope)' % (kinds or evs))
        except Exception as e:  # noqa: BLE001
            acc.violation('foreign-exception', case, 'stream whose parser stops at the first error raised %s: %s' % (type(e).__name__, e))
    return m.calls


def _stream_only(text, acc, case):
    ge = GherkinEvents(GherkinEvents.Options(print_source=True, print_ast=True, print_pickles=True))
    try:
        evs = list(ge.enum({'source': {'uri': 'u', 'data': text, 'mediaType': 'text/x.cucumber.gherkin+plain'}}))
        kinds = [next(iter(e)) for e in evs if isinstance(e, dict) and e]
        # the text itself ('.', '/', '..', 'check' ...) is not a Gherkin document: it must be rejected with parse errors
        if 'parseError' not in kinds:
            acc.violation('D1-source-text-names-existing-path', case,
                          'source text %r names an existing path: the stream parsed the content of that path instead of the text' % text)
    except Exception as e:  # noqa: BLE001
        acc.violation('D1-source-text-names-existing-path', case,
                      'source text %r names an existing path: TokenScanner opened it as a file: %s: %s' % (text, type(e).__name__, e))
    return None


# ---------------------------------------------------------------------------
# C: characters in slots
# ---------------------------------------------------------------------------
def slot_spaces(seed, quick):
    other = ['a', 'é', '\U0001F600', '0'][seed % 4]
    blank = [' ', '\t', ' '][seed % 3]
    n = 4 if quick else 5
    spaces = {
        'source': (lambda s: s, ['\n', '\r', ' ', '.', '/', '@', '#', '|', '\\', '"', ':', '<', other], n),
        'tagline': (lambda s: 'Feature: f\n  @' + s + '\n  Scenario: s\n', [' ', blank, '@', '#', 'a', other, '\\', '\x0b', '+'], n),
        'tagline-top': (lambda s: '@' + s + '\nFeature: f\n', ['@', '#', ' ', other, '\t'], n),
        'row': (lambda s: 'Feature: f\n  Scenario: s\n    Given g\n      |' + s + '\n', ['|', '\\', 'n', ' ', other, blank, '\r'], n + 1),
        'row2': (lambda s: 'Feature: f\n  Scenario: s\n    Given g\n      | a |\n      |' + s + '\n', ['|', '\\', 'n', ' ', other], n + 1),
        'header': (lambda s: '#' + s + '\nFeature: f\n', [' ', 'language', 'Language', ':', 'fr', 'xx', '-', '_', '1', '\t', '#'], n),
        'delimiter': (lambda s: 'Feature: f\n  Scenario: s\n    Given g\n      """' + s + '\n      x\n      """\n', ['"', '`', '\\', ' ', 'a', '\n', other], n),
        'delimiter2': (lambda s: 'Feature: f\n  Scenario: s\n    Given g\n      ```' + s + '\n', ['"', '`', '\\', ' ', 'a', '\n'], n),
        'title': (lambda s: 'Feature:' + s + '\n  Scenario:' + s + '\n    Given' + s + '\n', [' ', ':', other, '\t', '<', '>', '\\', '\r'], n),
    }
    return spaces


HDR_ALPHA = ['a', '1', '.', '(', ')', '[', '\\', '$', '*', '+', '?', '^', '{', '<', '>', ' ']
VAL_ALPHA = ['a', '\\', '$', '&', 'g', '<', '1', ' ']


def outline_doc(h, v):
    return ('Feature: f\n  Scenario Outline: o <%s>\n    Given g <%s> and <x>\n      | <%s> |\n    When w\n      """ <%s>\n      d <%s>\n      """\n'
            '    Examples:\n      | %s |\n      | %s |\n' % (h, h, h, h, h, h, v))


@worker
def job_slot(name, seed, quick, first):
    acc = Acc()
    f, alpha, n = slot_spaces(seed, quick)[name]
    if first is None:
        words = [()]
    else:
        words = ((alpha[first],) + w for k in range(n) for w in itertools.product(alpha, repeat=k))
    t = None
    for w in words:
        t = f(''.join(w))
        check_text(t, acc)
    acc.sample({'slot': name, 'text': t})
    return acc


@worker
def job_outline(hlen, first):
    acc = Acc()
    t = None
    for hw in itertools.product(HDR_ALPHA, repeat=hlen - 1):
        h = HDR_ALPHA[first] + ''.join(hw)
        for vl in range(0, 3):
            for vw in itertools.product(VAL_ALPHA, repeat=vl):
                t = outline_doc(h, ''.join(vw))
                check_text(t, acc)
        # values that quote their own (or each other's) placeholder: substitution must still end
        selfref = [outline_doc(h, v) for v in ('see <%s>!' % h, '<%s><%s>' % (h, h), ' <%s' % h)]
        selfref.append('Feature: f\n  Scenario Outline: o <%s> <q>\n    Given g <q> <%s>\n    Examples:\n      | %s | q |\n      | x <q> | y <%s> |\n' % (h, h, h, h))
        for t in selfref:
            if '\n' in h:
                continue
            try:
                with time_limit(20):
                    check_text(t, acc)
            except _Timeout:
                acc.violation('superlinear-or-hang', {'kind': 'text', 'text': t}, 'processing an outline whose example value quotes a placeholder did not finish in 20 s of CPU time')
    acc.sample({'slot': 'outline', 'text': t})
    return acc


# ---------------------------------------------------------------------------
# D: code points
# ---------------------------------------------------------------------------
CP_SLOTS = [
    lambda c: 'Feature: f\n  Scenario: s\n' + c + '   Given g\n' + c + ' | ' + c + ' |\n',     # indentation and cell
    lambda c: 'Feature: f\n@' + c + ' @t' + c + '\nScenario: s' + c + '\n',                        # tag and name
    lambda c: c + 'Feature: f\n  d' + c + '\n' + c + '\n',                                          # before keyword, description, lone
    lambda c: '#' + c + 'language' + c + ':' + c + 'en' + c + '\nFeature: f\n  Scenario Outline: <' + c + '>\n    Given <' + c + '>\n    Examples:\n      |' + c + '|\n      |x' + c + '|\n',
]


def boundary_code_points():
    cps = set(range(0, 0x100))
    for c in range(0x110000):
        if 0xD800 <= c <= 0xDFFF:
            continue
        if chr(c).isspace():
            cps.update((c - 1, c, c + 1))
    for c in (0x7f, 0x80, 0x85, 0xa0, 0x2028, 0x2029, 0xfeff, 0xfffd, 0xffff, 0x10000, 0x1F600, 0xE0001, 0x10FFFF, 0xD7FF, 0xE000,
              0x300, 0x200b, 0x200d, 0x202e, 0x3000, 0x1680, 0x180e, 0xfe0f, 0xff5c, 0xff20, 0xff03, 0x2223, 0xff3c):
        cps.add(c)
    return sorted(c for c in cps if 0 <= c < 0x110000 and not (0xD800 <= c <= 0xDFFF))


@worker
def job_cps(lo, hi, only):
    acc = Acc()
    t = None
    cps = only if only is not None else range(lo, hi)
    for c in cps:
        if 0xD800 <= c <= 0xDFFF:
            continue
        ch = chr(c)
        for f in CP_SLOTS:
            t = f(ch)
            check_text(t, acc)
    acc.counters['code_points'] += len([c for c in cps if not (0xD800 <= c <= 0xDFFF)])
    acc.sample({'slot': 'code-point', 'text': t})
    return acc


# ---------------------------------------------------------------------------
# long tokens: a long run of one character class ended by a character that makes the match fail late
# (catastrophic backtracking, quadratic scans and per-line size limits show here, each case under a time limit)
# ---------------------------------------------------------------------------
class _Timeout(BaseException):
    pass


class time_limit:
    """Limit on the CPU time of this process (ITIMER_PROF): independent of how loaded the machine is; a blocked (not spinning)
    implementation is caught by the wall-clock watchdog every job runs under."""

    def __init__(self, seconds):
        self.seconds = seconds

    def __enter__(self):
        import signal

        def handler(signum, frame):
            raise _Timeout()
        self.old = signal.signal(signal.SIGPROF, handler)
        signal.setitimer(signal.ITIMER_PROF, self.seconds)
        return self

    def __exit__(self, *exc):
        import signal
        signal.setitimer(signal.ITIMER_PROF, 0)
        signal.signal(signal.SIGPROF, self.old)
        return False


LONG_N = (8, 16, 24, 28, 32, 40, 64, 1000, 20000)


def long_token_docs(n):
    a = 'a' * n
    yield '# language: ' + a + '1\nFeature: f\n'
    yield '#language:' + ('a-' * (n // 2)) + '!\nFeature: f\n'
    yield '  # ' + ' ' * n + 'language' + ' ' * n + ':' + ' ' * n + 'en' + ' ' * n + 'x\nFeature: f\n'
    yield 'Feature: f\n  @' + a + ' b\n  Scenario: s\n'
    yield 'Feature: f\n  @a' + ' ' * n + '#' + ' ' * n + '@\n  Scenario: s\n'
    yield 'Feature: f\n  Scenario: s\n    Given g\n      |' + '\\\\' * n + '\n'
    yield 'Feature: f\n  Scenario: s\n    Given g\n      |' + ' ' * n + '\\n' + ' ' * n + '|' + ' ' * n + '\n'
    yield 'Feature: f\n  Scenario: s\n    Given g\n      """' + '"' * n + '\n      x\n      """\n'
    yield 'Feature: f\n  Scenario Outline: <' + '<' * n + 'a>\n    Given <a' + '>' * n + '\n    Examples:\n      | a' + '<' * n + ' |\n      | ' + '\\\\' * n + ' |\n'
    yield ' ' * n + 'Feature:' + ' ' * n + '\n' + '\t' * n + 'Scenario:' + ':' * n + '\n'


@worker
def job_long_tokens(n):
    acc = Acc()
    t = None
    for t in long_token_docs(n):
        try:
            with time_limit(20):
                check_text(t, acc)
        except _Timeout:
            acc.violation('superlinear-or-hang', {'kind': 'text', 'text': t if len(t) < 400 else t[:200] + '...(%d characters)' % len(t)},
                          'processing a %d-character document did not finish in 20 s of CPU time (token of %d repeated characters)' % (len(t), n))
    acc.sample({'slot': 'long-token', 'text': (t or '')[:120]})
    return acc


# ---------------------------------------------------------------------------
# growth families
# ---------------------------------------------------------------------------
GROWTH_N = (25, 50, 100, 200)
GROWTH_UNITS = DS.SIGMA_FULL + ['  @t\n  # c\n', '  @t\n\n  Scenario: s\n', '    Examples:\n  @t\n', '  @t\n  Scenario Outline: o\n    Given g\n  @u\n    Examples:\n      | a |\n      | 1 |\n']
GROWTH_TAILS = ['', '  Scenario: z\n', '    Examples:\n', 'zzz\n']


@worker
def job_growth(pi):
    acc = Acc()
    pre = DS.prefixes()[pi]
    for unit in GROWTH_UNITS:
        for tail in GROWTH_TAILS:
            counts = []
            for n in GROWTH_N:
                c = check_text(pre + unit * n + tail, acc)
                counts.append(c)
            if None in counts:
                continue
            d1 = counts[1] - counts[0]
            d2 = counts[2] - counts[1]
            d3 = counts[3] - counts[2]
            acc.counters['growth_families'] += 1
            if not (d2 == 2 * d1 and d3 == 4 * d1):
                acc.violation('nonlinear-work', {'kind': 'growth', 'prefix': pre, 'unit': unit, 'tail': tail},
                              'line-matching operations for n=%s repetitions: %s (not linear in n)' % (list(GROWTH_N), counts))
    acc.sample({'kind': 'growth', 'prefix': pre, 'unit': GROWTH_UNITS[-1], 'tail': GROWTH_TAILS[1], 'n': list(GROWTH_N)})
    return acc


@worker
def job_cap(pi, m, mode):
    from .c14 import A_LINES
    acc = Acc()
    pre = DS.prefixes()[pi]
    if mode == 'patterns':
        words = []
        for a in range(len(A_LINES)):
            words.append([a] * m)
            for b in range(len(A_LINES)):
                if a != b:
                    words.append([a if i % 2 == 0 else b for i in range(m)])
    else:
        words = itertools.product(range(2), repeat=m)
    t = pre
    for w in words:
        t = pre + ''.join(A_LINES[i] for i in w)
        check_text(t, acc)
    acc.sample({'text': t})
    return acc


def run(ctx):
    pre = DS.prefixes()
    seed = ctx.seed
    ctx.alphabet = {'lines_full': DS.SIGMA_FULL, 'lines_core': DS.SIGMA_CORE, 'prefixes': len(pre),
                    'slots': {k: v[1] for k, v in slot_spaces(seed, ctx.quick).items()}, 'header_chars': HDR_ALPHA, 'value_chars': VAL_ALPHA}
    ctx.rule = ('every enumerated source text is run through Parser.parse (collecting, with call counters), Compiler.compile, '
                'Parser.parse (stop-at-first-error) and GherkinEvents.enum; distinct by construction within each space; '
                'non-trivial = texts that are accepted and therefore also exercise the compiler and the full stream')
    ctx.assumptions = ['inputs outside the alphabets / lengths are not covered; the code-point sweep varies one character (repeated in several slots) at a time',
                       'line-matching operations = calls of TokenMatcher.match_* counted by a subclass; bound 64 per line read, exact linearity on growth families']
    mod = __name__
    k_full, k_core = ctx.pick((2, 3), (3, 4))
    DS.run_levels(ctx, mod, k_full, k_core)
    ctx.level('growth-families', [job_growth.job(pi) for pi in range(len(pre))])
    if ctx.quick:
        ctx.level('error-cap', [job_cap.job(pi, m, 'patterns') for pi in range(len(pre)) for m in (10, 11, 12)])
    else:
        ctx.level('error-cap', [job_cap.job(pi, m, 'all') for pi in range(len(pre)) for m in (9, 10, 11, 12, 13)])
    ctx.level('long tokens (8..20000 repeated characters) under a time limit', [job_long_tokens.job(n) for n in LONG_N])
    spaces = slot_spaces(seed, ctx.quick)
    jobs = []
    for name, (f, alpha, n) in spaces.items():
        jobs.append(job_slot.job(name, seed, ctx.quick, None))
        jobs += [job_slot.job(name, seed, ctx.quick, i) for i in range(len(alpha))]
    ctx.level('char-slots', jobs)
    hl = ctx.pick(2, 3)
    jobs = [job_outline.job(h, i) for h in range(1, hl + 1) for i in range(len(HDR_ALPHA))]
    ctx.level('outline-placeholders', jobs)
    if ctx.quick:
        cps = boundary_code_points()
        chunks = [cps[i:i + 40] for i in range(0, len(cps), 40)]
        ctx.level('code-points(boundary)', [job_cps.job(0, 0, ch) for ch in chunks])
    else:
        step = 4096
        ctx.level('code-points(all scalar values)', [job_cps.job(lo, min(lo + step, 0x110000), None) for lo in range(0, 0x110000, step)])


def replay(case):
    acc = Acc()
    if case.get('kind') == 'growth':
        counts = [check_text(case['prefix'] + case['unit'] * n + case['tail'], acc) for n in GROWTH_N]
        if None not in counts:
            d = [counts[i + 1] - counts[i] for i in range(3)]
            if not (d[1] == 2 * d[0] and d[2] == 4 * d[0]):
                acc.violation('nonlinear-work', case, 'counts %s' % counts)
    else:
        check_text(case['text'], acc)
    return [v[0]['message'] for v in acc.viol.values()]
