"""C17 - stream output is well-formed Cucumber Messages in the documented order.

Sources: a pool of 20 (accepted of every shape incl. the empty file, an outline starting with a conjunction, doc
strings with and without media type, examples without table; rejected of every error kind) x all 8 combinations of
the print options x every sequence of <= n sources through ONE GherkinEvents.  Oracle: envelope kinds and order,
option gating, uri, data unchanged, media type, JSON-serialisable, shape validation (E9: required fields, types,
vocabularies, no null), each source's envelopes equal its solo envelopes with ids shifted by the running counter,
sources handled in the order given."""
from __future__ import annotations

import copy
import itertools
import json

from .. import core
from ..core import Acc, worker
from .. import impl as I
from .. import msgshape as S
from .. import ref as R

from gherkin.stream.gherkin_events import GherkinEvents

POOL = [
    ('a.feature', 'Feature: a\n  Scenario: s\n    Given x\n'),
    ('empty.feature', ''),
    ('c.feature', '# just a comment\n'),
    ('o.feature', 'Feature: o\n  Scenario Outline: o <a>\n    And <a>\n    But y\n    Examples:\n      | a |\n      | 1 |\n      | 2 |\n'),
    ('d.feature', 'Feature: d\n  Scenario: s\n    Given x\n      """json\n      {}\n      """\n    When y\n      ```\n      ```\n'),
    ('t.feature', '@f\nFeature: t\n  Background:\n    Given b\n      | a | |\n  @s\n  Scenario: s\n    * star\n  Rule: r\n    @r\n    Example: e\n      Then z\n'),
    ('n.feature', 'Feature: n\n  Scenario Outline: no table\n    Given x\n    Examples:\n  Scenario Outline: header only\n    Given x\n    Examples:\n      | a |\n'),
    ('fr.feature', '#language: fr\nFonctionnalité: f\n  Scénario: s\n    Soit x\n    Et y\n'),
    ('desc.feature', 'Feature: d\n  text\n  # c\n\n  Scenario: s\n    more text\n'),
    ('nofeature.feature', '\n\n'),
    ('only-feature.feature', 'Feature:\n'),
    ('crlf.feature', 'Feature: c\r\n  Scenario: s\r\n    Given x\r\n'),
    ('bad1.feature', 'garbage\n'),
    ('bad2.feature', 'Feature: b\n  Scenario: s\n    Given x\n      | a |\n      | b | c |\n'),
    ('bad3.feature', 'Feature: b\n  @bad tag\n  Scenario: s\n'),
    ('bad4.feature', '#language: xx\nFeature: b\n'),
    ('bad5.feature', 'Feature: b\n  Scenario: s\n    Given x\n      """\n      open\n'),
    ('bad6.feature', 'x\n' * 13),
    ('bad7.feature', 'Feature: b\nFeature: c\n  Scenario: s\n  | a |\n'),
    ('bad8.feature', '# a comment that must not leak\n' + 'y\n' * 13),
    ('bad9.feature', 'Feature: b\n  Scenario: s\n    Given x\n  @dangling\n'),
    ('rules.feature', '@f\nFeature: r\n  @r1\n  Rule: one\n    Example: a\n      Given x\n  @r2\n  Rule: two\n    @s\n    Example: b\n      Given y\n'),
    ('uni.feature', 'Feature: ü😀\n  Scenario: <>&"\\\n    Given \\n\n      | \\| | 😀 |\n'),
]
OPTS = list(itertools.product((False, True), repeat=3))


def shift_ids(o, off):
    if isinstance(o, dict):
        return {k: (str(int(v) + off) if k in ('id', 'astNodeId') and isinstance(v, str) else
                    [str(int(x) + off) for x in v] if k == 'astNodeIds' else shift_ids(v, off)) for k, v in o.items()}
    if isinstance(o, list):
        return [shift_ids(v, off) for v in o]
    return o


def check_solo(i, opts, evs, acc, case):
    """Order, gating, uri, data, shape - for one source's envelopes."""
    uri, text = POOL[i] if isinstance(i, int) else i
    kinds = [next(iter(e)) if isinstance(e, dict) and len(e) == 1 else '?' for e in evs]
    r = R.reference(text, uri)
    for e in evs:
        m = S.validate(e)
        if m:
            acc.violation('envelope-shape', case, 'envelope does not have the Cucumber Messages shape: ' + m, observed=e)
            return False
    if r.status != 'ok':
        want = ['parseError'] * len(r.errors)
        if kinds != want:
            acc.violation('rejected-stream', case, 'rejected source must yield exactly one parseError per error', observed=kinds, expected=want)
            return False
        for e, (l, c, msg) in zip(evs, r.errors):
            pe = e['parseError']
            loc = {'line': l, 'column': c} if c else {'line': l}
            if pe != {'source': {'uri': uri, 'location': loc}, 'message': msg}:
                acc.violation('parse-error-envelope', case, 'parseError envelope differs', observed=pe, expected={'source': {'uri': uri, 'location': loc}, 'message': msg})
                return False
        return True
    want = (['source'] if opts[0] else []) + (['gherkinDocument'] if opts[1] else []) + (['pickle'] * len(r.pickles) if opts[2] else [])
    if kinds != want:
        acc.violation('envelope-order', case, 'envelope kinds / order / option gating', observed=kinds, expected=want)
        return False
    docs = [e['gherkinDocument'] for e in evs if 'gherkinDocument' in e]
    if docs and docs[0] != r.doc:
        from .c03 import first_diff
        d = first_diff(docs[0], r.doc)
        acc.violation('document-envelope', case, 'gherkinDocument envelope (as held after the whole stream was drawn) differs from the reference document at %s' % (d[0] if d else '?'),
                      observed=d[1] if d else None, expected=d[2] if d else None)
        return False
    pks = [e['pickle'] for e in evs if 'pickle' in e]
    if opts[2] and pks != r.pickles:
        acc.violation('pickle-envelope', case, 'pickle envelopes differ from the reference pickles')
        return False
    for e in evs:
        if 'source' in e:
            if e['source'] != {'uri': uri, 'data': text, 'mediaType': 'text/x.cucumber.gherkin+plain'}:
                acc.violation('source-envelope', case, 'source envelope must carry uri, the text unchanged and the Gherkin media type', observed=e['source'])
                return False
        elif 'gherkinDocument' in e:
            if e['gherkinDocument'].get('uri') != uri:
                acc.violation('document-uri', case, 'gherkinDocument envelope does not carry the uri', observed=e['gherkinDocument'].get('uri'))
                return False
        elif 'pickle' in e:
            if e['pickle'].get('uri') != uri:
                acc.violation('pickle-uri', case, 'pickle does not carry the uri')
                return False
    return True


def solo(i, opts):
    uri, text = POOL[i]
    return I.events(text, uri=uri, opts=opts)


def first_offset(evs, solo_evs):
    """Offset of a source's ids relative to its solo ids, read off the envelopes themselves."""
    def first(o):
        if isinstance(o, dict):
            for k, v in o.items():
                if k == 'id':
                    return v
                r = first(v)
                if r is not None:
                    return r
        elif isinstance(o, list):
            for v in o:
                r = first(v)
                if r is not None:
                    return r
        return None
    a, b = first(evs), first(solo_evs)
    if a is None or b is None:
        return 0
    try:
        return int(a) - int(b)
    except (TypeError, ValueError):
        return 0


def count_ids(evs):
    n = 0

    def walk(o):
        nonlocal n
        if isinstance(o, dict):
            for k, v in o.items():
                if k == 'id':
                    n += 1
                else:
                    walk(v)
        elif isinstance(o, list):
            for v in o:
                walk(v)
    walk(evs)
    return n


@worker
def job_sequences(first, oi, maxlen):
    acc = Acc()
    opts = OPTS[oi]
    solos = {}
    for i in range(len(POOL)):
        r = solo(i, opts)
        if r[0] != 'ok':
            acc.violation('stream-exception', {'kind': 'stream', 'sources': [i], 'options': list(opts)}, 'enum raised ' + r[1])
            return acc
        solos[i] = r[1]
    # ids a source needs: AST ids are always drawn (the document is always parsed), pickle ids only when pickles are selected
    need = {}
    for i in range(len(POOL)):
        full = solo(i, (True, True, True))[1]
        if full and 'parseError' in full[0]:
            need[i] = None
        else:
            ast_ids = count_ids([e for e in full if 'gherkinDocument' in e])
            pk_ids = count_ids([e for e in full if 'pickle' in e])
            need[i] = ast_ids + (pk_ids if opts[2] else 0)
    seq = None
    for n in range(1, maxlen + 1):
        for rest in itertools.product(range(len(POOL)), repeat=n - 1):
            seq = (first,) + rest
            case = {'kind': 'stream', 'sources': list(seq), 'options': list(opts)}
            acc.n += 1
            acc.validated += 1
            acc.nontrivial += 1
            ge = GherkinEvents(GherkinEvents.Options(print_source=opts[0], print_ast=opts[1], print_pickles=opts[2]))
            running = 0
            for pos, i in enumerate(seq):
                r = I.events(POOL[i][1], uri=POOL[i][0], opts=opts, ge=ge)
                if r[0] != 'ok':
                    acc.violation('stream-exception', case, 'enum raised ' + r[1])
                    break
                evs = r[1]
                acc.states.add((i, running > 0, opts))
                acc.trans.add((seq[pos - 1] if pos else None, i, opts))
                acc.outcomes['%s' % ('rejected' if evs and 'parseError' in evs[0] else 'accepted')] += 1
                if n == 1 and not check_solo(i, opts, evs, acc, case):
                    break
                off = first_offset(evs, solos[i])
                want = shift_ids(solos[i], off)
                if count_ids(evs) and all(need[j] is not None for j in seq[:pos]) and off != sum(need[j] for j in seq[:pos]):
                    acc.violation('id-counter-advance', case, 'ids of source %d at position %d start at %d; the accepted sources before it needed %d ids (AST ids always, pickle ids only when pickles are selected)'
                                  % (i, pos, off, sum(need[j] for j in seq[:pos])))
                    break
                if count_ids(evs) and off < running:
                    acc.violation('source-independence', case, 'ids of source %d at position %d start at offset %d, below the %d ids already handed out' % (i, pos, off, running))
                    break
                running = off + count_ids(evs) if count_ids(evs) else running
                if evs != want:
                    acc.violation('source-independence', case, 'envelopes of source %d at position %d are not its solo envelopes with ids shifted by %d' % (i, pos, off))
                    break
    acc.sample({'sources': [POOL[i][0] for i in (seq or (first,))], 'options': list(opts)})
    return acc


@worker
def job_edits(max_chars, bi):
    """Single-edit neighbourhood of the corpus and base documents (mc.docspace), each as the only source of a stream, in two option sets."""
    from .. import docspace as DS
    acc = Acc()
    text = None
    for text in DS.single_edits(DS.edit_bases(max_chars)[bi]):
        for opts in ((True, True, True), (False, False, True)):
            case = {'kind': 'solo-text', 'uri': 'e.feature', 'text': text, 'options': list(opts)}
            acc.n += 1
            acc.validated += 1
            r = I.events(text, uri='e.feature', opts=opts)
            if r[0] != 'ok':
                acc.violation('stream-exception', case, 'enum raised ' + r[1])
                continue
            acc.nontrivial += 1
            acc.outcomes['rejected' if r[1] and 'parseError' in r[1][0] else 'accepted'] += 1
            check_solo(('e.feature', text), opts, r[1], acc, case)
    acc.sample({'sources': ['e.feature'], 'text': (text or '')[:300]})
    return acc


def canon_ids(evs):
    """Envelopes with every id replaced by the rank of its first appearance (ids of interleaved sources are not a constant shift)."""
    seen = {}

    def name(v):
        return seen.setdefault(v, '#%d' % len(seen))

    def walk(o):
        if isinstance(o, dict):
            return {k: (name(v) if k in ('id', 'astNodeId') and isinstance(v, str) else [name(x) for x in v] if k == 'astNodeIds' else walk(v)) for k, v in o.items()}
        if isinstance(o, list):
            return [walk(v) for v in o]
        return o
    return walk(evs)


def interleavings(n, m, max_switches):
    """Words over {0, 1} with n zeros and m ones and at most max_switches changes of letter."""
    def rec(a, b, last, sw):
        if a == 0 and b == 0:
            yield ()
            return
        for x, left in ((0, a), (1, b)):
            if not left:
                continue
            s2 = sw + (1 if last is not None and last != x else 0)
            if s2 > max_switches:
                continue
            for rest in rec(a - (x == 0), b - (x == 1), x, s2):
                yield (x,) + rest
    return rec(n, m, None, 0)


@worker
def job_interleaved(i, oi, max_switches):
    """Two enum() generators of ONE GherkinEvents drawn alternately in every order (bounded number of switches): what each yields is
    what it yields alone, up to the numbering of ids; all ids handed out are distinct."""
    import copy
    acc = Acc()
    opts = OPTS[oi]
    mk = lambda k: {'source': {'uri': POOL[k][0], 'data': POOL[k][1], 'mediaType': 'text/x.cucumber.gherkin+plain'}}  # noqa: E731
    solos = {k: solo(k, opts) for k in range(len(POOL))}
    word = None
    for j in range(len(POOL)):
        if solos[i][0] != 'ok' or solos[j][0] != 'ok':
            continue
        la, lb = len(solos[i][1]) + 1, len(solos[j][1]) + 1
        for word in interleavings(la, lb, max_switches):
            case = {'kind': 'interleaved', 'sources': [i, j], 'options': list(opts), 'schedule': list(word)}
            acc.n += 1
            acc.validated += 1
            acc.nontrivial += 1
            ge = GherkinEvents(GherkinEvents.Options(print_source=opts[0], print_ast=opts[1], print_pickles=opts[2]))
            gens = [ge.enum(mk(i)), ge.enum(mk(j))]
            out = [[], []]
            try:
                for x in word:
                    try:
                        out[x].append(copy.deepcopy(next(gens[x])))
                    except StopIteration:
                        pass
            except Exception as e:  # noqa: BLE001
                acc.violation('stream-exception', case, 'enum raised %s: %s' % (type(e).__name__, e))
                continue
            acc.states.add((len(out[0]), len(out[1]), opts))
            acc.trans.add((word[:3], opts))
            for x, k in ((0, i), (1, j)):
                if canon_ids(out[x]) != canon_ids(solos[k][1]):
                    acc.violation('source-independence', case, 'envelopes of source %d drawn alternately with source %d (schedule %s) are not what it yields alone' % (k, (j, i)[x], ''.join(map(str, word))),
                                  observed=str(out[x])[:300], expected=str(solos[k][1])[:300])
                    break
            ids = []
            for x in (0, 1):
                for e in out[x]:
                    if 'gherkinDocument' in e or 'pickle' in e:
                        ids += [v for v in _own_ids(e)]
            if len(ids) != len(set(ids)):
                acc.violation('source-independence', case, 'ids handed out to two sources drawn alternately are not distinct')
    acc.sample({'sources': [POOL[i][0], POOL[-1][0]], 'options': list(opts), 'schedule': list(word or ())})
    return acc


def _own_ids(o):
    if isinstance(o, dict):
        for k, v in o.items():
            if k == 'id' and isinstance(v, str):
                yield v
            else:
                yield from _own_ids(v)
    elif isinstance(o, list):
        for v in o:
            yield from _own_ids(v)


def run_script(modname, argv):
    """Run python/scripts/<modname>.main() in-process with the given argv; returns printed text."""
    import contextlib
    import importlib.util
    import io
    import os
    import sys
    path = os.path.join(core.REPO, 'python', 'scripts', modname + '.py')
    spec = importlib.util.spec_from_file_location('verif_script_' + modname, path)
    mod = importlib.util.module_from_spec(spec)
    spec.loader.exec_module(mod)
    old_argv, old_cwd = sys.argv, os.getcwd()
    buf = io.StringIO()
    try:
        os.chdir(os.path.join(core.REPO, 'python'))
        sys.argv = [path] + argv
        with contextlib.redirect_stdout(buf):
            mod.main()
    finally:
        sys.argv = old_argv
        os.chdir(old_cwd)
    return buf.getvalue()


def output_lines(out, acc, case):
    """The script's standard output: one JSON envelope per line and nothing else (no blank line, no text after the last newline)."""
    lines = out.split('\n')
    if lines[-1] != '':
        acc.violation('script-output-lines', case, 'generate_events output does not end with a line break: %r' % out[-60:])
    got = []
    for n, l in enumerate(lines[:-1], 1):
        try:
            e = json.loads(l)
        except ValueError:
            acc.violation('script-output-lines', case, 'generate_events output line %d of %d is not a JSON envelope: %r' % (n, len(lines) - 1, l[:80]))
            continue
        got.append(e)
    return got


@worker
def job_script(paths):
    """scripts/generate_events.py on corpus files must print exactly the corpus ndjson lines."""
    import os
    acc = Acc()
    for path in paths:
        rel = '../testdata/%s/%s' % (os.path.basename(os.path.dirname(path)), os.path.basename(path))
        good = '/good/' in path
        variants = [(['--no-ast', '--no-pickles'], '.source.ndjson'), (['--no-source', '--no-pickles'], '.ast.ndjson'), (['--no-source', '--no-ast'], '.pickles.ndjson')] if good \
            else [([], '.errors.ndjson'), (['--no-source', '--no-ast', '--no-pickles'], '.errors.ndjson')]
        for flags, ext in variants:
            acc.n += 1
            acc.validated += 1
            acc.nontrivial += 1
            case = {'kind': 'script', 'path': path, 'flags': flags}
            try:
                out = run_script('generate_events', flags + [rel])
            except BaseException as e:  # noqa: BLE001
                acc.violation('script-exception', case, 'generate_events raised %s: %s' % (type(e).__name__, e))
                continue
            got = output_lines(out, acc, case)
            want = [json.loads(l) for l in open(path + ext, encoding='utf8') if l.strip()]
            if got != want:
                acc.violation('script-vs-corpus', case, 'generate_events %s prints envelopes that differ from %s' % (' '.join(flags), os.path.basename(path) + ext))
    acc.sample({'script': 'generate_events', 'files': [os.path.basename(p) for p in paths]})
    return acc


FILE_EXTRA = [
    ('bom.feature', '\ufeffFeature: starts with a byte order mark\n  Scenario: s\n    Given x\n'),
    ('bom-inside.feature', 'Feature: f\n  Scenario: \ufeff s\n    Given x \ufeff\n'),
    ('crlf-mixed.feature', 'Feature: f\r\n  Scenario: s\n    Given x\r\n'),
    ('nofinal.feature', 'Feature: f\n  Scenario: s'),
    ('odd-separators.feature', 'Feature: f\n  a\x0bb\x0cc\x1cd\x85e\u2028f\n  Scenario: s\n'),
]


@worker
def job_files(items):
    """SourceEvents / source_event(path): the source envelope carries the file's text unchanged, and the stream over the file
    equals the stream over the same text."""
    import os
    import shutil
    import tempfile
    from gherkin.stream.source_events import SourceEvents
    acc = Acc()
    tmp = tempfile.mkdtemp(prefix='c17-')
    try:
        paths = []
        for name, text in items:
            path = os.path.join(tmp, name)
            with open(path, 'w', encoding='utf8', newline='') as f:
                f.write(text)
            paths.append((path, text))
        # the same path may be given more than once (overlapping globs): every occurrence is a source;
        # a path is reported exactly as it was given, whatever its spelling
        first = paths[0]
        spellings = [(os.path.join(tmp, '.', os.path.basename(first[0])), first[1]), (tmp + '//' + os.path.basename(first[0]), first[1]),
                     (os.path.join(tmp, 'sub', '..', os.path.basename(first[0])), first[1])]
        os.makedirs(os.path.join(tmp, 'sub'), exist_ok=True)
        paths = paths + paths[:2] + paths[-1:] + spellings
        events = list(SourceEvents([p for p, _ in paths]).enum())
        acc.n += 1
        if [e['source']['uri'] for e in events] != [p for p, _ in paths]:
            acc.violation('source-order', {'kind': 'files', 'names': [n for n, _ in items]}, 'SourceEvents does not yield the sources in the order given')
        for (path, text), ev in zip(paths, events):
            case = {'kind': 'file', 'name': os.path.basename(path), 'text': text}
            acc.n += 1
            acc.validated += 1
            acc.nontrivial += 1
            want = {'source': {'uri': path, 'data': text, 'mediaType': 'text/x.cucumber.gherkin+plain'}}
            if ev != want:
                acc.violation('source-envelope', case, 'source envelope of a file does not carry uri, the file\'s text unchanged and the Gherkin media type',
                              observed={k: (v if k != 'data' else repr(v)[:200]) for k, v in ev.get('source', {}).items()}, expected=repr(text)[:200])
                continue
            for opts in ((True, True, True), (False, False, False)):
                a = list(GherkinEvents(GherkinEvents.Options(*opts)).enum(ev))
                b = I.events(text, uri=path, opts=opts)[1]
                if a != b:
                    acc.violation('file-stream', case, 'stream over the file differs from the stream over the same text')
    finally:
        shutil.rmtree(tmp, ignore_errors=True)
    acc.sample({'files': [n for n, _ in items]})
    return acc


@worker
def job_script_multi(flags):
    """scripts/generate_events.py with several paths in one invocation prints what one GherkinEvents prints for those sources in that order
    (one stream: ids continue across files, every file appears once per mention)."""
    import os
    acc = Acc()
    good, bad = R.corpus()
    groups = [[good[0], good[1]], [good[2], bad[0], good[3]], [bad[1], bad[2]], [good[4], good[4]], [good[5], good[6], good[7], bad[3]]]
    nopickle = [p for p in good if os.path.getsize(p + '.pickles.ndjson') == 0]
    groups += [[p] for p in nopickle[:3]] + [nopickle[:2] + [good[0]] + nopickle[2:], [good[1], nopickle[0], bad[0], nopickle[-1]]]
    for paths in groups:
        rels = ['../testdata/%s/%s' % (os.path.basename(os.path.dirname(p)), os.path.basename(p)) for p in paths]
        acc.n += 1
        acc.validated += 1
        acc.nontrivial += 1
        case = {'kind': 'script-multi', 'paths': rels, 'flags': flags}
        try:
            out = run_script('generate_events', list(flags) + rels)
        except BaseException as e:  # noqa: BLE001
            acc.violation('script-exception', case, 'generate_events raised %s: %s' % (type(e).__name__, e))
            continue
        got = output_lines(out, acc, case)
        opts = ('--no-source' not in flags, '--no-ast' not in flags, '--no-pickles' not in flags)
        ge = GherkinEvents(GherkinEvents.Options(print_source=opts[0], print_ast=opts[1], print_pickles=opts[2]))
        want = []
        for p, rel in zip(paths, rels):
            want += I.events(R.read_source(p), uri=rel, opts=opts, ge=ge)[1]
        want = json.loads(json.dumps(want))
        if got != want:
            i = next((i for i, (x, y) in enumerate(zip(got, want)) if x != y), min(len(got), len(want)))
            acc.violation('script-vs-stream', case, 'generate_events over %d paths differs from one stream over the same sources at envelope %d (of %d / %d)' % (len(rels), i, len(got), len(want)),
                          observed=str(got[i:i + 1])[:300], expected=str(want[i:i + 1])[:300])
    acc.sample({'script': 'generate_events', 'paths': rels, 'flags': list(flags)})
    return acc


def run(ctx):
    probs = R.selftest()
    ctx.selftest(not probs, 'reference pipeline reproduces the acceptance corpus (%s)' % (probs[:3] or 'ok'))
    p2, n = S.selftest()
    ctx.selftest(not p2, 'message-shape validator accepts all %d corpus envelopes (%s)' % (n, p2[:2] or 'ok'))
    ctx.alphabet = {'sources': [u for u, _ in POOL], 'option_sets': [list(o) for o in OPTS]}
    ctx.rule = 'all sequences of <= n pool sources x all 8 option combinations through one GherkinEvents; every sequence is non-trivial (each source compared with its solo envelopes)'
    ctx.assumptions = ['envelope shapes are validated by a hand-written validator that is itself validated against the corpus ndjson files']
    good, bad = R.corpus()
    files = good + bad
    ctx.level('generate_events script on the corpus', [job_script.job(files[i:i + 4]) for i in range(0, len(files), 4)])
    ctx.level('generate_events script with several paths', [job_script_multi.job([f for f, on in zip(('--no-source', '--no-ast', '--no-pickles'), o) if not on]) for o in OPTS])
    items = POOL + FILE_EXTRA
    ctx.level('source_event on files', [job_files.job(items[i:i + 5]) for i in range(0, len(items), 5)])
    n = ctx.pick(3, 4)
    ctx.level('sequences <= %d' % n, [job_sequences.job(i, o, n) for i in range(len(POOL)) for o in range(len(OPTS))])
    from .. import docspace as DS
    mc = ctx.pick(250, 1500)
    ctx.level('single edits of corpus and base documents <= %d characters, each as a one-source stream' % mc, [job_edits.job(mc, bi) for bi in range(len(DS.edit_bases(mc)))])
    sw = ctx.pick(2, 4)
    ctx.level('two sources drawn alternately from one stream, <= %d switches' % sw, [job_interleaved.job(i, o, sw) for i in range(len(POOL)) for o in range(len(OPTS))])
    # the command-line script prints the same envelopes
    # (scripts/generate_events.py is a thin loop over SourceEvents + GherkinEvents.enum + json.dumps)


def replay(case):
    acc = Acc()
    kind = case.get('kind')
    if kind == 'solo-text':
        opts = tuple(case['options'])
        r = I.events(case['text'], uri=case['uri'], opts=opts)
        if r[0] != 'ok':
            return ['enum raised ' + r[1]]
        check_solo((case['uri'], case['text']), opts, r[1], acc, case)
        return [v[0]['message'] for v in acc.viol.values()]
    if kind in ('script', 'script-multi', 'interleaved', 'file', 'files'):
        if kind == 'script':
            acc = job_script([case['path']])
        elif kind == 'script-multi':
            acc = job_script_multi(list(case['flags']))
        elif kind == 'interleaved':
            sw = sum(1 for a, b in zip(case['schedule'], case['schedule'][1:]) if a != b)
            acc = job_interleaved(case['sources'][0], OPTS.index(tuple(case['options'])), sw)
        else:
            acc = job_files(POOL + FILE_EXTRA)
        return [v[0]['message'] for v in acc.viol.values()]
    opts = tuple(case['options'])
    ge = GherkinEvents(GherkinEvents.Options(print_source=opts[0], print_ast=opts[1], print_pickles=opts[2]))
    for pos, i in enumerate(case['sources']):
        r = I.events(POOL[i][1], uri=POOL[i][0], opts=opts, ge=ge)
        if r[0] != 'ok':
            return ['enum raised ' + r[1]]
        if len(case['sources']) == 1:
            check_solo(i, opts, r[1], acc, case)
        s = solo(i, opts)
        off = first_offset(r[1], s[1])
        if r[1] != shift_ids(s[1], off):
            return ['envelopes of source %d at position %d are not its solo envelopes shifted by %d' % (i, pos, off)]
    return [v[0]['message'] + ' observed=%r expected=%r' % (v[0].get('observed'), v[0].get('expected')) for v in acc.viol.values()]
