"""C05 - every keyword of every dialect is recognised in its role; foreign ones are not; header rules.

a  line level (finite, complete): 80 dialects x every distinct keyword string of all dialects x 6 keyword-driven
   matcher entry points x 4 layouts, compared with the reference lexer (first listed keyword, keyword type by
   category, Unknown when listed in several categories)
b  end to end: for each dialect and each listed keyword a minimal document that puts the line where its role is
   expected, with TokenMatcher(dialect) and with a '# language:' header: keyword as listed, language, keywordType;
   every foreign keyword line in a description position (plain text unless it starts with an own keyword)
c  header spellings and position: every string of <= n symbols over a 12-symbol alphabet as first line, and every
   prefix of <= 4 lines over {comment, blank, header(fr), header(no), tag line} before a French / Norwegian / English
   feature line - compared with a hand-coded recogniser of the documented header form
d  the packaged language table is byte-identical to the master table; DIALECTS is not modified by the sweep
"""
from __future__ import annotations

import copy
import itertools
import os

from .. import core
from ..core import Acc, worker
from .. import ref as R
from .. import impl as I

from gherkin.token_matcher import TokenMatcher
from gherkin.token import Token
from gherkin.gherkin_line import GherkinLine
from gherkin import dialect as _dialect

D = R.DIALECTS
TITLE = {'FeatureLine': ['feature'], 'RuleLine': ['rule'], 'BackgroundLine': ['background'],
         'ScenarioLine': ['scenario', 'scenarioOutline'], 'ExamplesLine': ['examples']}
STEP = ['given', 'when', 'then', 'and', 'but']
ROLES = ['feature', 'rule', 'background', 'scenario', 'scenarioOutline', 'examples'] + STEP


def all_keywords():
    return sorted({k for s in D.values() for r in ROLES for k in s[r]})


def fields(t):
    return (getattr(t, 'matched_type', None), getattr(t, 'matched_keyword', None), getattr(t, 'matched_text', None),
            getattr(t, 'matched_keyword_type', None), t.location.get('column'), getattr(t, 'matched_gherkin_dialect', None))


@worker
def job_lines(names):
    acc = Acc()
    allkw = all_keywords()
    line = None
    for d in names:
        tm = TokenMatcher(d)
        lx = R.RefLexer(d)
        own = {k for r in ROLES for k in D[d][r]}
        for k in allkw:
            for line in (k + ':', '  ' + k + ': name ', k + ' name', k + 'x'):
                for mt in list(TITLE) + ['StepLine']:
                    acc.n += 1
                    acc.validated += 1
                    case = {'kind': 'matcher-line', 'dialect': d, 'entry': mt, 'line': line}
                    t = Token(GherkinLine(line, 1), {'line': 1})
                    try:
                        got = getattr(tm, 'match_' + mt)(t)
                    except Exception as e:  # noqa: BLE001
                        acc.violation('matcher-exception', case, 'match_%s raised %s: %s' % (mt, type(e).__name__, e))
                        continue
                    rt = R.Tok(1, line)
                    exp = lx.match(mt, rt)
                    acc.outcomes['%s:%s:%s' % (mt, 'own' if k in own else 'foreign', 'recognised' if got else 'plain')] += 1
                    acc.states.add((mt, bool(got), k in own))
                    acc.trans.add((mt, bool(got), k in own, line[:1] == ' ', line.endswith(':')))
                    if bool(got) != bool(exp):
                        acc.violation('keyword-recognition', case, 'match_%s returned %r, reference %r' % (mt, got, exp))
                        continue
                    if got:
                        acc.nontrivial += 1
                        g = fields(t)
                        e = (mt, rt.keyword, rt.text, rt.ktype, rt.column, d)
                        if g != e:
                            acc.violation('keyword-fields', case, 'token fields differ from the reference lexer', observed=g, expected=e)
    acc.sample({'dialect': names[-1], 'line': line})
    return acc


LINE_EDIT_CHARS = [' ', ':', 'x', '\t', '\u00a0', '*', '\n']


def line_edits(line):
    seen = {line}
    for i in range(len(line) + 1):
        cands = [line[:i] + c + line[i:] for c in LINE_EDIT_CHARS]
        if i < len(line):
            cands.append(line[:i] + line[i + 1:])
            cands.append(line[:i] + line[i].swapcase() + line[i + 1:])
            if i + 1 < len(line):
                cands.append(line[:i] + line[i + 1] + line[i] + line[i + 2:])
        for t in cands:
            if t not in seen:
                seen.add(t)
                yield t


@worker
def job_line_edits(names):
    """Every own keyword of the dialect as a title / step line, and every single edit of that line (one character inserted, deleted,
    case-swapped, two neighbours exchanged), against all six entry points of the matcher."""
    acc = Acc()
    line = None
    for d in names:
        tm = TokenMatcher(d)
        lx = R.RefLexer(d)
        for role in ROLES:
            for k in D[d][role]:
                base = ' ' + (k + 'n' if role in STEP else k + ': n')
                for line in itertools.chain([base], line_edits(base)):
                    for mt in list(TITLE) + ['StepLine']:
                        acc.n += 1
                        acc.validated += 1
                        case = {'kind': 'matcher-line', 'dialect': d, 'entry': mt, 'line': line}
                        t = Token(GherkinLine(line, 1), {'line': 1})
                        try:
                            got = getattr(tm, 'match_' + mt)(t)
                        except Exception as e:  # noqa: BLE001
                            acc.violation('matcher-exception', case, 'match_%s raised %s: %s' % (mt, type(e).__name__, e))
                            continue
                        rt = R.Tok(1, line)
                        exp = lx.match(mt, rt)
                        acc.outcomes['%s:edit:%s' % (mt, 'recognised' if got else 'plain')] += 1
                        if bool(got) != bool(exp):
                            acc.violation('keyword-recognition', case, 'match_%s returned %r, reference %r' % (mt, got, exp))
                            continue
                        if got:
                            acc.nontrivial += 1
                            g = fields(t)
                            e = (mt, rt.keyword, rt.text, rt.ktype, rt.column, d)
                            if g != e:
                                acc.violation('keyword-fields', case, 'token fields differ from the reference lexer', observed=g, expected=e)
    acc.sample({'dialect': names[-1], 'line': line})
    return acc


def ast_equal(text, acc, case, default='en', sig='document'):
    a = I.parse(text, default=default, acc=acc)
    r = R.reference(text, default=default, compile_=False)
    acc.n += 1
    acc.validated += 1
    if a[0] == 'exc':
        acc.violation('foreign-exception', case, 'parser raised ' + a[1])
        return None
    if (a[0] == 'ok') != (r.status == 'ok'):
        acc.violation(sig + '-accept', case, 'parser %s, reference %s' % (a[0], r.status), observed=a[1] if a[0] != 'ok' else None, expected=r.errors)
        return None
    if a[0] == 'ok':
        rd = dict(r.doc)
        rd.pop('uri', None)
        if a[1] != rd:
            from .c03 import first_diff
            d = first_diff(a[1], rd)
            acc.violation(sig + '-ast', case, 'AST differs from the reference at %s' % (d[0] if d else '?'), observed=d[1] if d else None, expected=d[2] if d else None)
            return None
    else:
        if [e[:3] for e in a[1]] != r.errors:
            acc.violation(sig + '-errors', case, 'errors differ from the reference', observed=[e[:3] for e in a[1]], expected=r.errors)
            return None
    return a


def first_kw(d, role):
    return D[d][role][0] if role not in STEP else next(k for k in D[d][role] if k != '* ')


def host(d, role, k):
    F, S, SO = first_kw(d, 'feature'), first_kw(d, 'scenario'), first_kw(d, 'scenarioOutline')
    if role == 'feature':
        return '%s: f\n' % k, ('feature',)
    if role == 'rule':
        return '%s: f\n%s: r\n' % (F, k), ('feature', 'children', 0, 'rule')
    if role == 'background':
        return '%s: f\n%s: b\n' % (F, k), ('feature', 'children', 0, 'background')
    if role in ('scenario', 'scenarioOutline'):
        return '%s: f\n%s: s\n' % (F, k), ('feature', 'children', 0, 'scenario')
    if role == 'examples':
        return '%s: f\n%s: s\n%s: e\n' % (F, SO, k), ('feature', 'children', 0, 'scenario', 'examples', 0)
    return '%s: f\n%s: s\n%sx y\n' % (F, S, k), ('feature', 'children', 0, 'scenario', 'steps', 0)


CAT = {'given': 'Context', 'when': 'Action', 'then': 'Outcome', 'and': 'Conjunction', 'but': 'Conjunction'}


@worker
def job_end_to_end(names):
    acc = Acc()
    text = None
    allkw = all_keywords()
    for d in names:
        own = {k for r in ROLES for k in D[d][r]}
        for role in ROLES:
            for k in D[d][role]:
                body, path = host(d, role, k)
                for via in ('default', 'header'):
                    text = body if via == 'default' else '# language: %s\n' % d + body
                    case = {'kind': 'text', 'text': text, 'default': d if via == 'default' else 'en'}
                    a = ast_equal(text, acc, case, default=case['default'], sig='keyword')
                    if not a or a[0] != 'ok':
                        if a:
                            acc.violation('keyword-rejected', case, 'document using keyword %r of dialect %s in role %s rejected: %s' % (k, d, role, a[1][:2]))
                        continue
                    acc.nontrivial += 1
                    node = a[1]
                    try:
                        for p in path:
                            node = node[p]
                    except (KeyError, IndexError, TypeError):
                        acc.violation('keyword-role', case, 'keyword %r of dialect %s not recognised in role %s' % (k, d, role))
                        continue
                    if a[1]['feature'].get('language') != d:
                        acc.violation('language-reported', case, 'feature reports language %r, dialect in force is %r' % (a[1]['feature'].get('language'), d))
                    # expected keyword: the first listed keyword that prefixes the line (for title lines: keyword + ':')
                    if role in STEP:
                        line = k + 'x y'
                        cands = [(r2, k2) for r2 in STEP for k2 in D[d][r2] if line.startswith(k2)]
                        ek = cands[0][1]
                        cats = {CAT[r2] for r2 in STEP if ek in D[d][r2]}
                        ekt = cats.pop() if len(cats) == 1 else 'Unknown'
                        if node.get('keyword') != ek or node.get('keywordType') != ekt:
                            acc.violation('step-keyword', case, 'step keyword/type %r/%r, expected %r/%r' % (node.get('keyword'), node.get('keywordType'), ek, ekt))
                    else:
                        if node.get('keyword') != k:
                            acc.violation('title-keyword', case, 'keyword reported as %r, listed as %r' % (node.get('keyword'), k))
        # foreign keywords are plain text (unless they start with an own keyword, which the reference computes)
        F = first_kw(d, 'feature')
        for k in allkw:
            if k in own:
                continue
            for line in (k + ': x', k + 'x'):
                text = '%s: f\n%s\n' % (F, line)
                case = {'kind': 'text', 'text': text, 'default': d}
                a = ast_equal(text, acc, case, default=d, sig='foreign')
                acc.outcomes['foreign:' + (a[0] if a else 'diff')] += 1
    acc.sample({'dialect': names[-1], 'text': text})
    return acc


@worker
def job_shared(pairs):
    """Keyword spellings that belong to different categories in two dialects: dialect d1 first, then d2, in one process."""
    acc = Acc()
    text = None
    for (k, d1, d2) in pairs:
        for d in (d1, d2):
            F, S = first_kw(d, 'feature'), first_kw(d, 'scenario')
            for via in ('default', 'header'):
                body = '%s: f\n%s: s\n%sx y\n' % (F, S, k)
                text = body if via == 'default' else '# language: %s\n' % d + body
                case = {'kind': 'text', 'text': text, 'default': d if via == 'default' else 'en'}
                a = ast_equal(text, acc, case, default=case['default'], sig='shared-spelling')
                if a and a[0] == 'ok':
                    acc.nontrivial += 1
            tm = TokenMatcher(d)
            line = k + 'x'
            t = Token(GherkinLine(line, 1), {'line': 1})
            got = tm.match_StepLine(t)
            rt = R.Tok(1, line)
            exp = R.RefLexer(d).match('StepLine', rt)
            acc.n += 1
            if bool(got) != bool(exp) or (got and fields(t) != ('StepLine', rt.keyword, rt.text, rt.ktype, rt.column, d)):
                acc.violation('keyword-fields', {'kind': 'matcher-line', 'dialect': d, 'entry': 'StepLine', 'line': line},
                              'keyword %r in dialect %s after dialect %s was used in the same process: token fields differ from the reference lexer' % (k, d, d1),
                              observed=fields(t), expected=(rt.keyword, rt.text, rt.ktype))
    acc.sample({'text': text})
    return acc


HSYM = ['#', ' ', '\t', 'language', 'Language', ':', 'fr', 'xx', '-', '_', '1', 'a']
FOLLOW = ['Feature: f\n  Scenario: s\n', 'Fonctionnalité: f\n  Scénario: s\n']


@worker
def job_headers(first, second, maxlen):
    """second = None: the strings of length 1 and 2 starting with HSYM[first]; else all strings of length 3..maxlen starting with the two symbols."""
    acc = Acc()
    text = None
    if second is None:
        words = [()] + [(x,) for x in HSYM]
    else:
        words = ((HSYM[second],) + w for n in range(1, maxlen - 1) for w in itertools.product(HSYM, repeat=n))
    if True:
        for w in words:
            s = HSYM[first] + ''.join(w)
            for fol in FOLLOW:
                for ind in ('', '  '):
                    text = ind + s + '\n' + fol
                    case = {'kind': 'text', 'text': text, 'default': 'en'}
                    a = ast_equal(text, acc, case, sig='header')
                    if a is not None:
                        name = R.language_header((ind + s).lstrip())
                        acc.outcomes['header:%s:%s' % ('none' if name is None else ('known' if name in D else 'unknown'), a[0])] += 1
                        if name is not None:
                            acc.nontrivial += 1
                        acc.states.add((name is None, name in D if name else None, a[0]))
                        acc.trans.add((name is None, name in D if name else None, fol[:2], a[0]))
                        if name is not None and name not in D:
                            col = len(ind + s) - len((ind + s).lstrip()) + 1      # the header's '#'
                            want = [(1, col, '(1:%d): Language not supported: %s' % (col, name))]
                            if a[0] == 'ok' or [e[:3] for e in a[1]][:1] != want:
                                acc.violation('unknown-language', case, 'unknown dialect %r: expected first error %r' % (name, want), observed=a[1] if a[0] != 'ok' else 'accepted')
    acc.sample({'text': text})
    return acc


PLINES = ['# c\n', '\n', '#language: fr\n', '# language: no\n', '@t\n']
FEATS = ['Feature: f\n', 'Fonctionnalité: f\n', 'Egenskap: f\n']


@worker
def job_positions(first):
    acc = Acc()
    text = None
    for n in range(0, 4):
        for w in itertools.product(PLINES, repeat=n):
            pre = PLINES[first] + ''.join(w)
            for f in FEATS:
                for default in ('en', 'fr'):
                    text = pre + f
                    case = {'kind': 'text', 'text': text, 'default': default}
                    a = ast_equal(text, acc, case, default=default, sig='header-position')
                    if a is None:
                        continue
                    # direct oracle: the dialect in force is the first header standing before any tag or feature line
                    force = default
                    for ln in (pre).split('\n'):
                        if ln.startswith('@'):
                            break
                        nm = R.language_header(ln)
                        if nm:
                            force = nm
                            break
                    fk = {'Feature: f\n': 'en', 'Fonctionnalité: f\n': 'fr', 'Egenskap: f\n': 'no'}[f]
                    should_accept = fk == force or (fk == 'en' and 'Feature' in D[force]['feature'])
                    acc.outcomes['position:%s:%s' % (force, a[0])] += 1
                    acc.nontrivial += 1
                    if (a[0] == 'ok') != should_accept:
                        acc.violation('dialect-in-force', case, 'dialect in force should be %s; feature line %r %s' % (force, f, 'rejected' if a[0] != 'ok' else 'accepted'))
                    elif a[0] == 'ok' and a[1]['feature']['language'] != force:
                        acc.violation('dialect-in-force', case, 'feature reports %r, dialect in force is %r' % (a[1]['feature']['language'], force))
    acc.sample({'text': text})
    return acc


HEADER_BASES = ['#language: fr', '# language : fr ', '  #language:no-such', '#language: en_lol', '#language: zh-CN']
HEADER_EDIT_CHARS = [' ', '\t', '\u00a0', '\u3000', '\u2003', '\u0085', '\u017f', '\u212a', 'L', '1', '\u00e9', '-', ':', '#', '\uff45']


@worker
def job_header_edits(bi):
    """A language header and every single edit of it (one character inserted from the menu - Unicode blanks, letters that only case-fold to
    ASCII, digits, full-width letters - deleted, or case-swapped) before an English and a French document, in both default dialects."""
    acc = Acc()
    base = HEADER_BASES[bi]
    seen = set()
    text = None
    cands = [base]
    for i in range(len(base) + 1):
        cands += [base[:i] + c + base[i:] for c in HEADER_EDIT_CHARS]
        if i < len(base):
            cands += [base[:i] + base[i + 1:], base[:i] + base[i].swapcase() + base[i + 1:]]
    for h in cands:
        if h in seen:
            continue
        seen.add(h)
        for fol in FOLLOW:
            for default in ('en', 'fr'):
                text = h + '\n' + fol
                a = ast_equal(text, acc, {'kind': 'text', 'text': text, 'default': default}, default=default, sig='header')
                if a is not None:
                    name = R.language_header(h.lstrip())
                    acc.outcomes['header-edit:%s:%s' % ('none' if name is None else ('known' if name in D else 'unknown'), a[0])] += 1
                    if name is not None:
                        acc.nontrivial += 1
    acc.sample({'text': text})
    return acc


def run(ctx):
    probs = R.selftest()
    ctx.selftest(not probs, 'reference pipeline reproduces the acceptance corpus (%s)' % (probs[:3] or 'ok'))
    names = sorted(D)
    allkw = all_keywords()
    ctx.alphabet = {'dialects': len(names), 'distinct_keyword_strings': len(allkw), 'listed_keywords': sum(len(D[d][r]) for d in D for r in ROLES),
                    'header_symbols': HSYM, 'position_lines': PLINES}
    ctx.rule = ('complete sweep dialect x keyword x entry point x layout (line level); dialect x listed keyword x {default, header} and dialect x foreign keyword (end to end); '
                'all header strings <= n symbols; all prefixes <= 4 lines; non-trivial = lines/documents in which a keyword or header is recognised')
    ctx.assumptions = ['reference lexer reads gherkin-languages.json (the master table) and is self-tested on the corpus']
    # d: tables identical, DIALECTS untouched
    a = open(os.path.join(core.REPO, 'gherkin-languages.json'), 'rb').read()
    b = open(os.path.join(core.REPO, 'python/gherkin/gherkin-languages.json'), 'rb').read()
    ctx.acc.n += 1
    if a != b:
        ctx.acc.violation('language-table', {'kind': 'files'}, 'python/gherkin/gherkin-languages.json differs from the master gherkin-languages.json')
    snap = copy.deepcopy(_dialect.DIALECTS)
    if _dialect.DIALECTS != D:
        ctx.acc.violation('language-table', {'kind': 'files'}, 'loaded DIALECTS differ from the master table')
    ctx.level('line level: dialects x keywords x entry points', [job_lines.job(names[i:i + 2]) for i in range(0, len(names), 2)])
    ctx.level('line level: single edits of every own keyword line', [job_line_edits.job(names[i:i + 2]) for i in range(0, len(names), 2)])
    ctx.level('end to end: own and foreign keywords', [job_end_to_end.job(names[i:i + 2]) for i in range(0, len(names), 2)])
    from .c10 import shared_spellings
    sp = shared_spellings()
    ctx.level('dialect pairs sharing a keyword spelling (%d)' % len(sp), [job_shared.job(sp[i:i + 40]) for i in range(0, len(sp), 40)])
    n = ctx.pick(4, 6)
    ctx.level('header strings <= %d symbols' % n, [job_headers.job(i, None, n) for i in range(len(HSYM))] +
              [job_headers.job(i, j, n) for i in range(len(HSYM)) for j in range(len(HSYM))])
    ctx.level('single edits of language headers', [job_header_edits.job(i) for i in range(len(HEADER_BASES))])
    ctx.level('header position: prefixes <= 4 lines', [job_positions.job(i) for i in range(len(PLINES))] )
    # empty prefix
    acc = Acc()
    for f in FEATS:
        for default in ('en', 'fr'):
            ast_equal(f, acc, {'kind': 'text', 'text': f, 'default': default}, default=default, sig='header-position')
    ctx.acc.merge(acc)
    # in-process sweep must not have modified the table
    for d in names:
        TokenMatcher(d)
    if _dialect.DIALECTS != snap:
        ctx.acc.violation('language-table', {'kind': 'files'}, 'DIALECTS modified by matching')


def replay(case):
    acc = Acc()
    if case.get('kind') == 'text':
        ast_equal(case['text'], acc, case, default=case.get('default', 'en'))
    elif case.get('kind') == 'matcher-line':
        tm = TokenMatcher(case['dialect'])
        t = Token(GherkinLine(case['line'], 1), {'line': 1})
        got = getattr(tm, 'match_' + case['entry'])(t)
        rt = R.Tok(1, case['line'])
        exp = R.RefLexer(case['dialect']).match(case['entry'], rt)
        if bool(got) != bool(exp) or (got and fields(t) != (case['entry'], rt.keyword, rt.text, rt.ktype, rt.column, case['dialect'])):
            return ['match_%s(%r) in %s: got %r %r, reference %r' % (case['entry'], case['line'], case['dialect'], got, fields(t), exp)]
    else:
        a = open(os.path.join(core.REPO, 'gherkin-languages.json'), 'rb').read()
        b = open(os.path.join(core.REPO, 'python/gherkin/gherkin-languages.json'), 'rb').read()
        if a != b:
            return ['language tables differ']
    return [v[0]['message'] + ' observed=%r expected=%r' % (v[0].get('observed'), v[0].get('expected')) for v in acc.viol.values()]
