"""C03 - the AST carries every element of the document once, in order, with exact text.

Oracle: the document *model* a text was rendered from (E5).  The AST returned by Parser.parse, with locations
and ids projected away, must equal the model's expected AST: same elements, same parents, same order, keywords
as written, names / step text trimmed, descriptions verbatim without comments and without trailing blank lines,
every comment in `comments`, nothing else.
"""
from __future__ import annotations

from .. import core
from ..core import Acc
from .. import impl as I
from .. import gen as G
from .. import docmodel as M


def project(o):
    if isinstance(o, dict):
        return {k: project(v) for k, v in o.items() if k not in ('location', 'id')}
    if isinstance(o, list):
        return [project(v) for v in o]
    return o


def first_diff(a, b, path=''):
    if type(a) is not type(b):
        return path, a, b
    if isinstance(a, dict):
        for k in sorted(set(a) | set(b)):
            if k not in a or k not in b:
                return path + '/' + k, a.get(k, '<absent>'), b.get(k, '<absent>')
            d = first_diff(a[k], b[k], path + '/' + k)
            if d:
                return d
        return None
    if isinstance(a, list):
        for i, (x, y) in enumerate(zip(a, b)):
            d = first_diff(x, y, path + '/%d' % i)
            if d:
                return d
        if len(a) != len(b):
            return path + '/len', len(a), len(b)
        return None
    return None if a == b else (path, a, b)


def check_model(text, exp, renderer, acc, case):
    acc.n += 1
    acc.validated += 1
    dialect = renderer.L.dialect
    acc.nontrivial += 1
    acc.outcomes['elements:%d' % min(len(renderer.lines), 12)] += 1
    want = project(exp)
    for route, a in I.parse_routes(text, dialect, acc):
        if a[0] == 'exc':
            acc.violation('foreign-exception', case, '%s: %s' % (route, a[1]))
            return
        if a[0] != 'ok':
            acc.violation('well-formed-rejected', case, '%s: well-formed document rejected: %s' % (route, a[1]))
            return
        got = project(a[1])
        if got != want:
            p, x, y = first_diff(got, want)
            sig = 'ast-' + (p.rsplit('/', 1)[-1] if not p.rsplit('/', 1)[-1].isdigit() else p.rsplit('/', 2)[-2])
            acc.violation(sig, case, '%s: AST differs from the document model at %s' % (route, p), observed=x, expected=y)
            return


def check_text(text, acc, default='en'):
    """Documents from every control state of the generated machine (witness prefix . lines): when accepted, the AST with
    locations and ids projected away must equal the reference builder's (same statement, independent code)."""
    from .. import ref as R
    case = {'kind': 'text', 'text': text}
    acc.n += 1
    a = I.parse(text, default=default, acc=acc, reread=True)
    if a[0] == 'exc':
        acc.violation('foreign-exception', case, 'parser raised ' + a[1])
        return
    if a[0] != 'ok':
        acc.outcomes['rejected'] += 1
        return
    r = R.reference(text, default=default, compile_=False)
    if r.status != 'ok':
        return          # acceptance itself is C02 / C14
    acc.validated += 1
    acc.nontrivial += 1
    acc.outcomes['accepted'] += 1
    rd = dict(r.doc)
    rd.pop('uri', None)
    got, want = project(a[1]), project(rd)
    if got != want:
        p, x, y = first_diff(got, want)
        sig = 'ast-' + (p.rsplit('/', 1)[-1] if not p.rsplit('/', 1)[-1].isdigit() else p.rsplit('/', 2)[-2])
        acc.violation(sig, case, 'AST differs from the reference builder at %s' % p, observed=x, expected=y)


def run(ctx):
    ctx.alphabet = {'names': G.NAME_ALPHA, 'texts': G.TEXT_ALPHA, 'tags': G.TAG_ALPHA, 'cells': G.CELL_ALPHA,
                    'description_lines': [d[1] for d in G.DESC_ALPHA], 'doc_lines': [str(d) for d in G.DOC_ALPHA],
                    'layout': {n: [str(x) for x in a] for n, a in G.LAYOUT_SLOTS}}
    ctx.rule = ('document models: every derivation with <= N lines (unique labels), and every document differing from a base document in <= k slots; '
                'a candidate is kept only if the grammar automaton reads each rendered line in the intended role; distinct by construction; all are non-trivial (accepted, compared with the model)')
    ctx.assumptions = ['the expected AST is computed from the model by the renderer, never from the text; admissibility uses the reference lexer own-kind classification + gherkin.berp automaton']
    G.run_families(ctx, __name__, 6, 7, [0, 1, 6, 7])
    from .. import docspace as DS
    k_full, k_core = ctx.pick((2, 2), (3, 3))
    DS.run_levels(ctx, __name__, k_full, k_core)
    G.run_deep(ctx, __name__, 8)


def replay(case):
    # a replay carries the text only; re-derive the expectation with the reference pipeline (which implements the same statement)
    from .. import ref as R
    acc = Acc()
    r = R.reference(case['text'], compile_=False)
    a = I.parse(case['text'])
    if a[0] != 'ok':
        return ['well-formed document rejected: %s' % (a[1],)]
    rd = dict(r.doc)
    rd.pop('uri', None)
    if project(a[1]) != project(rd):
        return ['AST differs: %s' % (first_diff(project(a[1]), project(rd)),)]
    return []
