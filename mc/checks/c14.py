"""C14 - rejected documents get errors at the right place with the right expectation.

Bounded exhaustive: every document `witness-prefix . w` (w over the line alphabet, |w| <= K, with and without
final newline; one witness prefix per state of the generated machine and per matcher mode) and the error-cap
families is run through the real parser in both error modes and through the stream API; the outcome must
agree with the reference machine (an interpreter of the *Java* transition table with an independent lexer
and an online builder), plus intrinsic requirements on every reported error.
"""
from __future__ import annotations

import itertools
import re

from .. import core
from ..core import Acc, worker
from .. import ref as R
from .. import impl as I
from .. import docspace as DS

MSG_RE = re.compile(r'^\((\d+):(\d+)\): ')


def n_lines(text):
    return text.count('\n') + (0 if text.endswith('\n') or text == '' else 1)


def intrinsic(errors, text, case, acc):
    """Requirements every error list must meet, whatever the reference says."""
    nl = n_lines(text)
    if not (1 <= len(errors) <= 11):
        acc.violation('error-count', case, '%d errors reported (must be 1..11)' % len(errors), observed=errors)
    seen = set()
    for (line, col, msg, typ) in errors:
        m = MSG_RE.match(msg)
        if not m:
            acc.violation('message-prefix', case, 'message does not start with its (line:column) position', observed=msg)
            continue
        if not isinstance(line, int) or isinstance(line, bool):
            acc.violation('location-type', case, 'error location has no integer line', observed=[line, col, msg])
            continue
        if (int(m.group(1)), int(m.group(2))) != (line, col or 0):
            acc.violation('location-vs-message', case, 'error location (%s:%s) disagrees with the position in its message' % (line, col),
                          observed=[line, col, msg])
        if not (1 <= line <= nl + 1):
            acc.violation('error-outside-document', case, 'error at line %d of a %d-line document' % (line, nl), observed=msg)
        if msg in seen:
            acc.violation('duplicate-message', case, 'identical message reported twice', observed=msg)
        seen.add(msg)


def check_text(text, acc, default='en'):
    case = {'kind': 'text', 'text': text}
    acc.n += 1
    a = I.parse(text, False, default, acc)
    r = R.reference(text, 'u', stop=False, default=default)
    acc.validated += 1
    if a[0] == 'exc':
        acc.violation('foreign-exception', case, 'parser raised ' + a[1])
        return
    rejected = a[0] != 'ok'
    acc.outcomes[a[0] if not rejected else 'errors:%d' % len(a[1])] += 1
    if rejected != (r.status != 'ok'):
        acc.violation('accept-vs-reject', case, 'parser %s, reference %s' % ('rejects' if rejected else 'accepts', r.status),
                      observed=a[1] if rejected else None, expected=r.errors)
        return
    if not rejected:
        return
    acc.nontrivial += 1
    errs = a[1]
    intrinsic(errs, text, case, acc)
    got = [e[:3] for e in errs]
    exp = [(l, c, m) for (l, c, m) in r.errors]
    # the message position is authoritative for comparison with the reference (location/message agreement is checked above)
    gm = [e[2] for e in errs]
    em = [e[2] for e in exp]
    if len(em) >= 11 or len(gm) >= 11:
        if gm != em:
            acc.violation('errors-vs-reference', case, 'error list (cap reached) differs from the reference', observed=gm, expected=em)
    else:
        if sorted(gm) != sorted(em):
            acc.violation('errors-vs-reference', case, 'errors differ from the reference', observed=gm, expected=em)
        elif gm[0] != em[0]:
            acc.violation('first-error', case, 'first error differs from the reference', observed=gm[0], expected=em[0])
    if sorted(got, key=repr) != sorted(exp, key=repr) and sorted(gm) == sorted(em):
        acc.violation('error-location', case, 'error locations differ from the reference', observed=got, expected=exp)
    # stop-at-first-error raises precisely the first collected error
    s = I.parse(text, True, default)
    acc.n += 1
    if s[0] == 'exc':
        acc.violation('foreign-exception', case, 'stop-at-first-error mode raised ' + s[1])
    elif s[0] == 'ok':
        acc.violation('stop-mode-accepts', case, 'stop-at-first-error mode accepts a document that collecting mode rejects', observed=errs)
    elif s[0] == 'errors':
        acc.violation('stop-mode-type', case, 'stop-at-first-error mode raised a composite error', observed=s[1])
    else:
        if s[1][0] != errs[0]:
            acc.violation('stop-mode-first', case, 'stop-at-first-error mode does not raise the first collected error',
                          observed=s[1][0], expected=errs[0])
    # stream: only parseError envelopes, one per error
    ev = I.events(text)
    acc.n += 1
    if ev[0] != 'ok':
        acc.violation('foreign-exception', case, 'stream raised ' + ev[1])
    else:
        kinds = [list(e.keys()) for e in ev[1]]
        if any(k != ['parseError'] for k in kinds) or len(kinds) != len(errs):
            acc.violation('stream-rejected', case, 'stream of a rejected source is not one parseError per error', observed=kinds, expected=len(errs))
        else:
            for e, x in zip(ev[1], errs):
                pe = e['parseError']
                if pe.get('message') != x[2] or pe.get('source', {}).get('uri') != 'u' or pe['source'].get('location', {}).get('line') != x[0]:
                    acc.violation('stream-rejected', case, 'parseError envelope does not carry the error', observed=pe, expected=x)


A_LINES = ['zzz\n', '  @bad tag\n', 'Feature: f\n', '      | 1 | 2 | 3 |\n']


@worker
def job_cap(pi, m, mode):
    """Error-cap families: after witness prefix pi, runs of m lines over unexpected / duplicate-message lines."""
    acc = Acc()
    pre = DS.prefixes()[pi]
    if mode == 'patterns':
        words = []
        for a in range(len(A_LINES)):
            words.append([a] * m)
            for b in range(len(A_LINES)):
                if a != b:
                    words.append([a if i % 2 == 0 else b for i in range(m)])
        words = [tuple(w) for w in words]
    else:
        words = itertools.product(range(2), repeat=m)
    text = pre
    for w in words:
        text = pre + ''.join(A_LINES[i] for i in w)
        check_text(text, acc)
        acc.counters['cap_family_docs'] += 1
    acc.sample({'text': text})
    return acc


REUSE_POOL = [
    'zzz\n' * 12,
    '# c\n' + 'zzz\n' * 13,
    'zzz\nFeature: f\n  Scenario: s\n',
    'Feature: f\nzzz\n',
    'Feature: f\n  Scenario: s\n    Given g\n      | a |\n      | b | c |\n  @t\n  zzz\n',
    'Feature: f\n  Scenario: s\n    Given g\n      | a |\n      | b | c |\n',
    '  @bad tag\n' * 6,
    'Feature: f\n  @bad tag\n  Scenario: s\n',
    '#language: xx\nFeature: f\n',
    'Feature: f\n  Scenario: s\n    Given g\n      """\n      open\n',
    'Feature: ok\n  Scenario: s\n    Given g\n',
    '',
]


@worker
def job_reuse(first, h):
    """Rejected documents through ONE parser (as GherkinEvents keeps it), both error modes: each outcome must be what a fresh parser
    reports - in particular a rejected document is still rejected, with the same errors, whatever was parsed before."""
    import itertools as it
    from gherkin.parser import Parser
    from gherkin.errors import CompositeParserException, ParserException
    acc = Acc()

    def run_one(p, text, stop):
        p.stop_at_first_error = stop
        try:
            p.parse(I.StringScanner(text))
            return ('ok',)
        except CompositeParserException as e:
            return ('errors', [I.err_tuple(x)[:3] for x in e.errors])
        except ParserException as e:
            return ('error1', [I.err_tuple(e)[:3]])
        except Exception as e:  # noqa: BLE001
            return ('exc', '%s: %s' % (type(e).__name__, e))
    fresh = {(i, stop): run_one(Parser(), REUSE_POOL[i], stop) for i in range(len(REUSE_POOL)) for stop in (False, True)}
    hist = None
    for n in range(2, h + 1):
        for rest in it.product(range(len(REUSE_POOL)), repeat=n - 1):
            hist = (first,) + rest
            for stops in it.product((False, True), repeat=2):
                p = Parser()
                r = None
                for pos, i in enumerate(hist):
                    stop = stops[0] if pos < len(hist) - 1 else stops[1]
                    r = run_one(p, REUSE_POOL[i], stop)
                acc.n += 1
                acc.validated += 1
                acc.nontrivial += 1
                want = fresh[(hist[-1], stops[1])]
                acc.outcomes[r[0]] += 1
                acc.states.add((hist[-1], r[0]))
                acc.trans.add((hist[-2], hist[-1], stops))
                if r != want:
                    acc.violation('reused-parser-errors', {'kind': 'reuse', 'history': list(hist), 'stop': list(stops)},
                                  'document %d parsed by a parser that parsed %s before: outcome differs from a fresh parser' % (hist[-1], list(hist[:-1])),
                                  observed=r, expected=want)
    acc.sample({'history': [REUSE_POOL[i] for i in (hist or (first,))]})
    return acc


def run(ctx):
    probs = R.selftest()
    ctx.selftest(not probs, 'reference pipeline reproduces the acceptance corpus (%s)' % (probs[:3] or 'ok'))
    pre = DS.prefixes()
    ctx.alphabet = {'full': DS.SIGMA_FULL, 'core': DS.SIGMA_CORE, 'prefixes': len(pre), 'cap_lines': A_LINES}
    ctx.rule = ('documents witness-prefix.w, w over the line alphabet with |w|<=K, each with and without final newline, distinct by '
                'construction within a prefix; non-trivial = rejected documents (their errors are compared with the reference machine)')
    ctx.assumptions = ['reference machine = interpreter of the Java transition table + independent lexer/online builder, self-tested on the acceptance corpus',
                       'source texts are given to the parser through a scanner that never consults the file system (see C01 for that decision)']
    k_full, k_core = ctx.pick((2, 3), (3, 4))
    DS.run_levels(ctx, __name__, k_full, k_core)
    if ctx.quick:
        jobs = [job_cap.job(pi, m, 'patterns') for pi in range(len(pre)) for m in (10, 11, 12)]
    else:
        jobs = [job_cap.job(pi, m, 'all') for pi in range(len(pre)) for m in (9, 10, 11, 12, 13)]
    ctx.level('error-cap', jobs)
    from .c12 import job_wide
    ctx.level('wide tables (cells per row around 256)', [job_wide.job(w) for w in (256, 257, 300)])
    h = ctx.pick(2, 3)
    ctx.level('one parser, histories of rejected documents h<=%d' % h, [job_reuse.job(i, h) for i in range(len(REUSE_POOL))])


def replay(case):
    acc = Acc()
    if case.get('kind') == 'reuse':
        a = job_reuse(case['history'][0], len(case['history']))
        return [v[0]['message'] for v in a.viol.values()]
    check_text(case['text'], acc)
    return [v[0]['message'] + ' observed=%r expected=%r' % (v[0].get('observed'), v[0].get('expected')) for v in acc.viol.values()]
