"""C06 - one pickle per scenario and per example row, in document order.

Complete cross products of document shapes (feature background x scenario lists x rule lists; every scenario
from a menu covering 0..2 steps and every examples shape: none, no table, header only, 1 row, 2 rows, two blocks,
tagged or not) compiled through both routes; compared with the reference compiler on count, order, uri,
language, name and astNodeIds of every pickle, plus a direct count oracle computed from the AST."""
from __future__ import annotations

import itertools

from ..core import Acc
from .. import docmodel as M
from .. import astgen as A
from .. import pick as P

S = M.step


def scen_menu(quick):
    menu = [
        lambda: M.scenario('p0', []),
        lambda: M.scenario('p1', [S('g')]),
        lambda: M.scenario('p2', [S('g'), S('h', role='and')], tags=[M.tagline(['@s'])]),
    ]
    for shape in A.EX_SHAPES:
        menu.append(lambda shape=shape: M.scenario('o <a>', [S('g <a> <b>')], [A.ex(shape)], outline=True))
    menu.append(lambda: M.scenario('o0 <b>', [], [A.ex('two-rows')], outline=True))
    menu.append(lambda: M.scenario('o2 <a>', [S('g <b>')], [A.ex('one-row', True), A.ex('two-rows')], outline=True))
    menu.append(lambda: M.scenario('o3', [S('g')], [A.ex('no-table'), A.ex('one-row'), A.ex('header-only', True)], outline=True))
    # two tables with different headers that share a row of identical values; placeholders in the name
    menu.append(lambda: M.scenario('o6 <a>-<b>', [S('g <a> <b>')], [M.examples('e', [['a', 'b'], ['1', '2']]), M.examples('e', [['b', 'a'], ['1', '2'], ['2', '1']])], outline=True))
    # the same column name twice with different values: columns are applied in header order, so the first one wins
    menu.append(lambda: M.scenario('o7 <a>/<b>', [S('g <a>')], [M.examples('e', [['a', 'b', 'a'], ['1', '2', '3']])], outline=True))
    # three tables whose headers go A, B, A: document order, not grouping by header
    menu.append(lambda: M.scenario('o8 <a>', [S('g <a>')], [M.examples('e1', [['a'], ['1']]), M.examples('e2', [['b'], ['2']]), M.examples('e3', [['a'], ['3'], ['4']])], outline=True))
    if not quick:
        menu.append(lambda: M.scenario('o4 <a>', [S('g'), S('h <a>')], [A.ex('two-rows', True), A.ex('two-rows')], outline=True))
        menu.append(lambda: M.scenario('o5', [], [A.ex('no-table')], outline=True))
    return menu


def shapes(family, quick):
    menu = scen_menu(quick)
    bgs = [None, lambda: M.background('', []), lambda: M.background('', [S('b')])]
    if family == 'feature-level':
        maxs = 3 if quick else 4
        for bg in bgs:
            for n in range(maxs + 1):
                for combo in itertools.product(menu, repeat=n):
                    yield M.feature('f', ([bg()] if bg else []) + [c() for c in combo])
    elif family == 'rules':
        small = (menu[:3] + menu[4:7]) if quick else menu
        rule_variants = []
        for rbg in (None, lambda: M.background('', [S('rb')])):
            for n in range(0, 3):
                for combo in itertools.product(small, repeat=n):
                    rule_variants.append((rbg, combo))
        for bg in bgs[::2]:
            for pre in ([], [menu[1]], [menu[5]]):
                for nr in range(1, 3):
                    for rv in itertools.product(rule_variants, repeat=nr):
                        rules = [M.rule('r%d' % i, ([rbg()] if rbg else []) + [c() for c in combo]) for i, (rbg, combo) in enumerate(rv)]
                        yield M.feature('f', ([bg()] if bg else []) + [c() for c in pre] + rules)
    elif family == 'degenerate':
        yield None
        yield M.feature('', [])
        yield M.feature('f', [M.background('', [S('b')])])
        yield M.feature('f', [M.rule('r', [])])
        yield M.feature('f', [M.rule('r', [M.background('', [S('b')])])])
        yield M.feature('f', [M.scenario('', [])], language='fr', header=[('language', '#language: fr')])


def expected_count(ast):
    """Direct oracle from the statement: one per scenario without examples, one per body row of each examples table that has a header."""
    out = []

    def scen(sc):
        if not sc['examples']:
            out.append((sc['id'],))
        else:
            for e in sc['examples']:
                if 'tableHeader' in e:
                    for r in e['tableBody']:
                        out.append((sc['id'], r['id']))
    f = ast.get('feature')
    if f:
        for ch in f['children']:
            if 'scenario' in ch:
                scen(ch['scenario'])
            elif 'rule' in ch:
                for rc in ch['rule']['children']:
                    if 'scenario' in rc:
                        scen(rc['scenario'])
    return out


def check_ast(ast, acc, case):
    acc.n += 1
    acc.validated += 1
    got, exp, before, after = P.compile_both(ast)
    if got[0] != 'ok':
        acc.violation('compile-exception', case, 'Compiler.compile raised ' + got[1])
        return
    want = expected_count(ast)
    if want:
        acc.nontrivial += 1
    acc.outcomes[min(len(want), 9)] += 1
    acc.states.add(('pickles', min(len(want), 12)))
    acc.trans.add(tuple(len(w) for w in want)[:8])
    for route, res in P.routes(ast, got):
        if res[0] != 'ok':
            acc.violation('compile-exception', case, 'Compiler.compile (%s) raised %s' % (route, res[1]))
            return
        pk = res[1]
        ids = [tuple(p.get('astNodeIds', ())) for p in pk]
        if ids != want:
            acc.violation('pickle-sources', case, '%s: pickles do not correspond one-to-one, in order, to scenarios / example rows' % route,
                          observed=ids, expected=want)
            return
        if not A.compare(acc, case, 'pickle-header', route + ': pickle name / uri / language / source ids', P.p_c06(pk), P.p_c06(exp)):
            return
    if after != before:
        acc.violation('input-modified', case, 'Compiler.compile modified the document it was given')


def run(ctx):
    ctx.rule = ('document shapes: complete cross product of feature background x lists of scenario variants x lists of rule variants; each compiled via the AST route and '
                'the parser route; non-trivial = shapes that yield at least one pickle')
    ctx.alphabet = {'scenario_menu': len(scen_menu(ctx.quick)), 'examples_shapes': list(A.EX_SHAPES)}
    ctx.assumptions = ['reference compiler written from the property statements, self-tested against the corpus pickles (see C14 self-test)']
    A.run_shapes(ctx, __name__, ['degenerate', 'feature-level', 'rules'], (6, 7))


def replay(case):
    acc = Acc()
    check_ast(case['ast'], acc, case)
    return [v[0]['message'] + ' observed=%r expected=%r' % (v[0].get('observed'), v[0].get('expected')) for v in acc.viol.values()]
