"""C04 - every reported location is the exact 1-based line and code-point column.

Two oracles.
1  Document models (E5): the renderer records where it put every element; every `location` of the AST must be that
   position (structure family, deviation family incl. tabs, NBSP-free odd indentation, non-BMP text before cells,
   escapes, padding, CRLF).
2  Slicing oracle on arbitrary (noisy) documents of the "lines from every control state" space: reading the source
   at each reported position must give back the element (keyword + ':', step keyword, tag name, '|', delimiter, the
   raw cell text); error locations of rejected documents must agree with the reference machine and with the
   position printed in their own message.
"""
from __future__ import annotations

from .. import core
from ..core import Acc
from .. import impl as I
from .. import ref as R
from .. import gen as G
from .. import docspace as DS
from .c14 import MSG_RE


def locs(o):
    """Skeleton of an AST that keeps structure and locations only."""
    if isinstance(o, dict):
        out = {}
        for k, v in o.items():
            if k == 'location':
                out[k] = v
            elif isinstance(v, (dict, list)):
                out[k] = locs(v)
        return out
    if isinstance(o, list):
        return [locs(v) for v in o]
    return None


def first_diff(a, b, path=''):
    from .c03 import first_diff as fd
    return fd(a, b, path)


def check_model(text, exp, renderer, acc, case):
    acc.n += 1
    acc.validated += 1
    acc.nontrivial += 1
    want = locs(exp)
    for route, a in I.parse_routes(text, renderer.L.dialect, acc):
        if a[0] != 'ok':
            acc.violation('well-formed-rejected', case, '%s: well-formed document rejected: %s' % (route, a[1]))
            return
        got = locs(a[1])
        if got != want:
            d = first_diff(got, want)
            p, x, y = d if d else ('?', None, None)
            kind = [s for s in p.split('/') if s and not s.isdigit() and s not in ('location', 'line', 'column')]
            sig = 'location-' + (kind[-1] if kind else 'root') + ('-line' if p.endswith('line') else '-column')
            acc.violation(sig, case, '%s: location differs from where the renderer put the element, at %s' % (route, p), observed=x, expected=y)
            return
    slicing(text, a[1], acc, case)


def read_cell(line, col):
    """Re-read a cell from 1-based column `col`: unescape up to the next unescaped pipe, trim blanks (not LF)."""
    i = col - 1
    buf = ''
    n = len(line)
    while i < n:
        c = line[i]
        if c == '|':
            break
        if c == '\\' and i + 1 < n:
            nx = line[i + 1]
            buf += {'n': '\n', '|': '|', '\\': '\\'}.get(nx, '\\' + nx)
            i += 2
            continue
        buf += c
        i += 1
    b = len(buf)
    while b > 0 and buf[b - 1] != '\n' and buf[b - 1].isspace():
        b -= 1
    return buf[:b]


def slicing(text, doc, acc, case):
    lines = text.split('\n')

    def src(loc, what):
        ln, col = loc.get('line'), loc.get('column')
        if not isinstance(ln, int) or not isinstance(col, int) or ln < 1 or col < 1 or ln > len(lines) or col > len(lines[ln - 1]) + 1:
            acc.violation('slice-' + what, case, '%s location %r is outside the source' % (what, loc))
            return None, None
        return lines[ln - 1], col

    def starts(loc, prefix, what, lead_blank=True):
        line, col = src(loc, what)
        if line is None:
            return
        if not line[col - 1:].startswith(prefix):
            acc.violation('slice-' + what, case, '%s: source at %r reads %r, expected %r' % (what, loc, line[col - 1:col - 1 + len(prefix) + 3], prefix))
        elif lead_blank and line[:col - 1].strip() != '':
            acc.violation('slice-' + what, case, '%s at %r is preceded by %r on its line' % (what, loc, line[:col - 1]))

    def tags(ts):
        for t in ts:
            # the column is that of the '@'; blanks between the '@' and the name are not part of the name ('@ x' is the tag '@x'
            # in every implementation), so the name is read off the source with those blanks skipped
            line, col = src(t['location'], 'tag')
            if line is None:
                continue
            rest = line[col - 1:]
            if not (rest.startswith('@') and ('@' + rest[1:].lstrip()).startswith(t['name'])):
                acc.violation('slice-tag', case, 'tag: source at %r reads %r, expected %r' % (t['location'], rest[:len(t['name']) + 3], t['name']))

    def rows(rs):
        for r in rs:
            starts(r['location'], '|', 'row')
            for c in r['cells']:
                line, col = src(c['location'], 'cell')
                if line is None:
                    continue
                line = line.rstrip('\r')
                ch = line[col - 1:col]
                val = c['value']
                if val == '':
                    if ch != '|':
                        acc.violation('slice-cell', case, 'empty cell at %r: source has %r, expected the closing pipe' % (c['location'], ch))
                else:
                    if ch == '' or (ch.isspace() and ch != '\n'):
                        acc.violation('slice-cell', case, 'cell %r at %r starts at a blank' % (val, c['location']))
                    elif read_cell(line, col) != val:
                        acc.violation('slice-cell', case, 'cell at %r: re-reading the source gives %r, AST has %r' % (c['location'], read_cell(line, col), val))
                # everything between the previous pipe and the column is blank
                j = col - 2
                while j >= 0 and line[j] != '|':
                    if not line[j].isspace():
                        acc.violation('slice-cell', case, 'cell at %r: non-blank %r between the previous pipe and the reported column' % (c['location'], line[j]))
                        break
                    j -= 1

    def steps(ss):
        for s in ss:
            starts(s['location'], s['keyword'], 'step')
            if 'dataTable' in s:
                if s['dataTable']['location'] != s['dataTable']['rows'][0]['location']:
                    acc.violation('slice-table', case, 'data table location is not its first row')
                rows(s['dataTable']['rows'])
            if 'docString' in s:
                starts(s['docString']['location'], s['docString']['delimiter'], 'docstring')

    def scen(sc):
        tags(sc['tags'])
        starts(sc['location'], sc['keyword'] + ':', 'scenario')
        steps(sc['steps'])
        for e in sc['examples']:
            tags(e['tags'])
            starts(e['location'], e['keyword'] + ':', 'examples')
            if 'tableHeader' in e:
                rows([e['tableHeader']] + e['tableBody'])

    for c in doc.get('comments', []):
        ln = c['location'].get('line')
        if c['location'].get('column') != 1 or not isinstance(ln, int) or not (1 <= ln <= len(lines)) or lines[ln - 1].rstrip('\r') != c['text']:
            acc.violation('slice-comment', case, 'comment %r is not the whole line at its location' % (c,))
    f = doc.get('feature')
    if not f:
        return
    tags(f['tags'])
    starts(f['location'], f['keyword'] + ':', 'feature')
    for ch in f['children']:
        if 'background' in ch:
            starts(ch['background']['location'], ch['background']['keyword'] + ':', 'background')
            steps(ch['background']['steps'])
        elif 'scenario' in ch:
            scen(ch['scenario'])
        else:
            r = ch['rule']
            tags(r['tags'])
            starts(r['location'], r['keyword'] + ':', 'rule')
            for rc in r['children']:
                if 'background' in rc:
                    starts(rc['background']['location'], rc['background']['keyword'] + ':', 'background')
                    steps(rc['background']['steps'])
                else:
                    scen(rc['scenario'])


def check_text(text, acc, default='en'):
    """Noisy documents: slicing oracle when accepted, error locations when rejected."""
    case = {'kind': 'text', 'text': text}
    acc.n += 1
    a = I.parse(text, default=default, acc=acc)
    if a[0] == 'exc':
        acc.violation('foreign-exception', case, 'parser raised ' + a[1])
        return
    acc.validated += 1
    if a[0] == 'ok':
        acc.nontrivial += 1
        acc.outcomes['accepted'] += 1
        slicing(text, a[1], acc, case)
        r = R.reference(text, default=default, compile_=False)
        if r.status == 'ok':
            rd = dict(r.doc)
            rd.pop('uri', None)
            if locs(a[1]) != locs(rd):
                d = first_diff(locs(a[1]), locs(rd))
                acc.violation('location-vs-reference', case, 'location differs from the reference at %s' % (d[0] if d else '?'),
                              observed=d[1] if d else None, expected=d[2] if d else None)
        return
    acc.outcomes['rejected'] += 1
    r = R.reference(text, default=default, compile_=False)
    nl = text.count('\n') + (0 if text.endswith('\n') or text == '' else 1)
    lines = text.split('\n')
    for (line, col, msg, typ) in a[1]:
        m = MSG_RE.match(msg)
        if not m or (int(m.group(1)), int(m.group(2))) != (line, col or 0):
            acc.violation('error-location-vs-message', case, 'error location (%s:%s) disagrees with its message %r' % (line, col, msg))
        if not isinstance(line, int) or not (1 <= line <= nl + 1):
            acc.violation('error-line-range', case, 'error at line %r of a %d-line document' % (line, nl))
            continue
        if typ == 'UnexpectedEOFException':
            if line != nl + 1 or col:
                acc.violation('error-eof-location', case, 'end-of-file error at (%s:%s), expected line %d without column' % (line, col, nl + 1))
        elif typ == 'UnexpectedTokenException':
            raw = lines[line - 1]
            want = len(raw) - len(raw.lstrip()) + 1
            if col != want:
                acc.violation('error-column', case, 'unexpected line %d reported at column %s, first non-blank character is at %d' % (line, col, want))
    if r.status != 'ok' and len(a[1]) < 11:
        got = sorted((e[0], e[1]) for e in a[1])
        exp = sorted((e[0], e[1]) for e in r.errors)
        if got != exp:
            acc.violation('error-location-vs-reference', case, 'error positions differ from the reference', observed=got, expected=exp)


def run(ctx):
    probs = R.selftest()
    ctx.selftest(not probs, 'reference pipeline reproduces the acceptance corpus (%s)' % (probs[:3] or 'ok'))
    ctx.alphabet = {'lines': DS.SIGMA_FULL, 'layout': {n: [str(x) for x in a] for n, a in G.LAYOUT_SLOTS}, 'cells': G.CELL_ALPHA, 'tags': G.TAG_ALPHA}
    ctx.rule = ('document models with recorded positions (structure <= N lines, deviations in <= k slots) and noisy documents (witness prefix . w) checked by '
                'slicing the source at every reported location; distinct by construction; non-trivial = accepted documents (every location checked) ')
    ctx.assumptions = ['positions come from the renderer (models) or from re-reading the source (slicing); error positions are compared with the reference machine']
    G.run_families(ctx, __name__, 6, 7, [1, 8])
    k_full, k_core = ctx.pick((2, 2), (3, 3))
    DS.run_levels(ctx, __name__, k_full, k_core)
    G.run_deep(ctx, __name__, 8)


def replay(case):
    acc = Acc()
    check_text(case['text'], acc)
    return [v[0]['message'] + ' observed=%r expected=%r' % (v[0].get('observed'), v[0].get('expected')) for v in acc.viol.values()]
