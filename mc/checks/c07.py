"""C07 - pickle steps = feature background steps + enclosing rule's background steps + the scenario's own steps.

Cross product of: feature background {absent, 0, 1, 2 steps} x scenarios before rules x up to two rules, each with
background {absent, 0, 1, 2 steps} and scenarios with {0, 1, 2} own steps, plain or outline (1-2 rows), every
argument kind (none, table, table with empty cells, doc string, empty doc string, doc string with media type).
Direct oracle from the statement (ids walked on the AST), reference compiler, arguments copied verbatim, and the
input document unchanged by compilation."""
from __future__ import annotations

import itertools

from ..core import Acc
from .. import docmodel as M
from .. import astgen as A
from .. import pick as P

S = M.step

ARGS = [
    lambda: None,
    lambda: M.table([['a', 'b'], ['c', 'd']]),
    lambda: M.table([['', 'x'], ['', '']]),
    lambda: M.doc(['l1', '', '  l3']),
    lambda: M.doc([]),
    lambda: M.doc(['x'], delimiter='```', media='json'),
]


def step_lists(quick):
    out = [lambda: []]
    for a in ARGS:
        out.append(lambda a=a: [S('g', arg=a())])
    out.append(lambda: [S('g'), S('h', role='and', arg=ARGS[1]())])
    out.append(lambda: [S('g', arg=ARGS[3]()), S('h', role='when', arg=ARGS[2]())])
    return out


def scen_variants(quick, reduced=False):
    sl = step_lists(quick)
    if reduced:
        sl = [sl[0], sl[1], sl[2], sl[7]] if quick else sl[:8]
    out = []
    for st in sl:
        out.append(lambda st=st: M.scenario('p', st()))
        out.append(lambda st=st: M.scenario('o <a>', st(), [A.ex('one-row')], outline=True))
        if not reduced or not quick:
            out.append(lambda st=st: M.scenario('o2', st(), [A.ex('two-rows'), A.ex('one-row')], outline=True))
    return out


BGS = [
    None,
    lambda n: M.background(n, []),
    lambda n: M.background(n, [S(n + '1')]),
    lambda n: M.background(n, [S(n + '1 <a>', arg=M.table([['<a>', '<b>'], ['c', 'd']])), S(n + '2', role='and', arg=M.doc(['x <a>', '<b>'], delimiter='```', media='m<a>'))]),
]


def shapes(family, quick):
    sv = scen_variants(quick)
    rsv = scen_variants(quick, reduced=True)
    if family == 'no-rules':
        for fbg in BGS:
            for n in (1, 2):
                for combo in itertools.product(sv if n == 1 else rsv, repeat=n):
                    yield M.feature('f', ([fbg('fb')] if fbg else []) + [c() for c in combo])
    elif family == 'rules':
        rule_variants = []
        for rbg in BGS:
            for sc in rsv:
                rule_variants.append((rbg, (sc,)))
            rule_variants.append((rbg, (rsv[0], rsv[1])))
        for fbg in BGS:
            for pre in [None] + (rsv[:3] if quick else rsv):
                for nr in (1, 2):
                    for rv in itertools.product(rule_variants, repeat=nr):
                        rules = [M.rule('r%d' % i, ([rbg('rb%d' % i)] if rbg else []) + [c() for c in scs]) for i, (rbg, scs) in enumerate(rv)]
                        yield M.feature('f', ([fbg('fb')] if fbg else []) + ([pre()] if pre else []) + rules)


def expected_steps(ast):
    """Per pickle: list of astNodeIds lists, from the statement."""
    out = []

    def scen(sc, bg):
        def one(row):
            if not sc['steps']:
                return []
            return [[s['id']] for s in bg] + [[s['id']] + ([row] if row is not None else []) for s in sc['steps']]
        if not sc['examples']:
            out.append(one(None))
        else:
            for e in sc['examples']:
                if 'tableHeader' in e:
                    for r in e['tableBody']:
                        out.append(one(r['id']))
    f = ast.get('feature')
    if not f:
        return out
    fbg = []
    for ch in f['children']:
        if 'background' in ch:
            fbg = fbg + ch['background']['steps']
        elif 'scenario' in ch:
            scen(ch['scenario'], fbg)
        else:
            rbg = list(fbg)
            for rc in ch['rule']['children']:
                if 'background' in rc:
                    rbg = rbg + rc['background']['steps']
                else:
                    scen(rc['scenario'], rbg)
    return out


def step_index(ast):
    idx = {}

    def walk(o):
        if isinstance(o, dict):
            if 'keywordType' in o:
                idx[o['id']] = o
            for v in o.values():
                walk(v)
        elif isinstance(o, list):
            for v in o:
                walk(v)
    walk(ast)
    return idx


def check_ast(ast, acc, case):
    acc.n += 1
    acc.validated += 1
    got, exp, before, after = P.compile_both(ast)
    if got[0] != 'ok':
        acc.violation('compile-exception', case, 'Compiler.compile raised ' + got[1])
        return
    want = expected_steps(ast)
    if any(want):
        acc.nontrivial += 1
    acc.outcomes[min(max([len(w) for w in want] or [0]), 9)] += 1
    for w in want:
        acc.states.add(len(w))
        acc.trans.add(tuple(len(x) for x in w))
    idx = step_index(ast)
    for route, res in P.routes(ast, got):
        if res[0] != 'ok':
            acc.violation('compile-exception', case, 'Compiler.compile (%s) raised %s' % (route, res[1]))
            return
        pk = res[1]
        ids = [[s.get('astNodeIds') for s in p.get('steps', [])] for p in pk]
        if ids != want:
            i = next((i for i, (x, y) in enumerate(zip(ids, want)) if x != y), min(len(ids), len(want)))
            acc.violation('step-sources', case, '%s: pickle %d: steps are not feature background + rule background + own steps' % (route, i),
                          observed=ids[i:i + 1], expected=want[i:i + 1])
            return
        if not A.compare(acc, case, 'step-arguments', route + ': pickle step arguments', P.p_c07(pk), P.p_c07(exp)):
            return
        # arguments carried over cell by cell / line by line wherever no substitution applies
        for p in pk:
            for s in p['steps']:
                src = idx[s['astNodeIds'][0]]
                if len(s['astNodeIds']) == 2:
                    continue
                if s.get('text') != src['text']:
                    acc.violation('step-text', case, route + ': pickle step text differs from its source step', observed=s.get('text'), expected=src['text'])
                if 'dataTable' in src:
                    w = {'dataTable': {'rows': [{'cells': [{'value': c['value']} for c in r['cells']]} for r in src['dataTable']['rows']]}}
                elif 'docString' in src:
                    w = {'docString': {'content': src['docString']['content']}}
                    if 'mediaType' in src['docString']:
                        w['docString']['mediaType'] = src['docString']['mediaType']
                else:
                    w = None
                if s.get('argument') != w:
                    acc.violation('step-arguments', case, route + ': argument of a background/plain step is not a verbatim copy', observed=s.get('argument'), expected=w)
                    return
    if after != before:
        acc.violation('input-modified', case, 'Compiler.compile modified the document it was given')


def run(ctx):
    ctx.rule = ('document shapes: feature background x scenarios x rules with backgrounds x own steps x plain/outline x argument kinds (complete cross product within the stated multiplicities), '
                'AST route and parser route; non-trivial = shapes with at least one pickle step')
    ctx.alphabet = {'argument_kinds': ['none', 'table', 'table with empty cells', 'doc string', 'empty doc string', 'doc string with media type'],
                    'backgrounds': ['absent', '0 steps', '1 step', '2 steps with arguments']}
    ctx.assumptions = ['reference compiler written from the property statements']
    A.run_shapes(ctx, __name__, ['no-rules', 'rules'], (6, 7))


def replay(case):
    acc = Acc()
    check_ast(case['ast'], acc, case)
    return [v[0]['message'] + ' observed=%r expected=%r' % (v[0].get('observed'), v[0].get('expected')) for v in acc.viol.values()]
