"""C16 - layout is meaning-neutral: line endings, indentation, padding, blank lines.

A relation between pairs of inputs, applied AT EVERY ADMISSIBLE POSITION of every base document (and at all
positions together).  Base documents: the shared acceptance corpus (good and bad), the E5 base documents, noisy and
rejected documents from every control state; thorough adds every E5 structure document of <= N lines.  Line roles and
admissible positions come from the reference machine (token kind delivered per line, machine state after each line).

  CRLF            LF -> CRLF for the whole document: AST, pickles, errors unchanged
  file            the text loaded through TokenScanner(path) and source_event(path): unchanged
  trailing blanks on keyword / step / tag / row / delimiter lines: unchanged
  indentation     such a line indented further (a doc string as one block): only the columns on that line change
  blank line      inserted at any gap where the machine expects blank lines as blank lines: only line numbers change
  comment line    directly before a keyword / step / tag / row / opening-delimiter line: line numbers + that comment
  final newline   added / removed: AST unchanged
"""
from __future__ import annotations

import copy
import os
import re
import shutil
import tempfile

from .. import core
from ..core import Acc, worker
from .. import ref as R
from .. import impl as I
from .. import gen as G
from .. import docmodel as M
from .. import docspace as DS
from .. import tables as TB

from gherkin.parser import Parser
from gherkin.ast_builder import AstBuilder
from gherkin.token_scanner import TokenScanner
from gherkin.pickles.compiler import Compiler
from gherkin.stream.id_generator import IdGenerator
from gherkin.stream.source_events import source_event
from gherkin.stream.gherkin_events import GherkinEvents
from gherkin.errors import CompositeParserException, ParserException

STRUCT = {'FeatureLine', 'RuleLine', 'BackgroundLine', 'ScenarioLine', 'ExamplesLine', 'StepLine', 'TagLine', 'TableRow', 'DocStringSeparator'}
MSG = re.compile(r'^\((\d+):(\d+)\): ')


def run_text(text, acc=None):
    a = I.full(text, acc=acc)
    if a[0] == 'ok':
        return ('ok', a[1], a[2])
    if a[0] == 'exc':
        return a
    return ('errors', [e[:3] for e in a[1]])


def map_result(res, fline=lambda l: l, fcol=lambda l, c: c):
    """Apply a position mapping to every location / error position of a result."""
    def loc(d):
        ln = d.get('line')
        out = dict(d)
        if 'column' in d:
            out['column'] = fcol(ln, d['column'])
        out['line'] = fline(ln)
        return out

    def walk(o):
        if isinstance(o, dict):
            return {k: (loc(v) if k == 'location' else walk(v)) for k, v in o.items()}
        if isinstance(o, list):
            return [walk(v) for v in o]
        return o
    if res[0] == 'ok':
        return ('ok', walk(res[1]), walk(res[2]))
    if res[0] == 'errors':
        out = []
        for (line, col, msg) in res[1]:
            nl = fline(line)
            nc = fcol(line, col) if col else col
            m = MSG.match(msg)
            body = msg[m.end():] if m else msg
            out.append((nl, nc, '(%d:%d): %s' % (nl, nc or 0, body)))
        return ('errors', out)
    return res


def analyse(text):
    """Per physical line: delivered token kind (None if reported unexpected), machine state after it."""
    r = R.reference(text, compile_=False)
    if r.capped:
        return None
    kinds = {t.line_no: t.kind for t in r.tokens if not t.eof}
    dialects = {t.line_no: t.dialect for t in r.tokens if not t.eof}
    states = dict(r.states)
    lines = text.split('\n')
    if lines and lines[-1] == '':
        lines = lines[:-1]
        final_nl = True
    else:
        final_nl = text.endswith('\n')
    # lines reported as unexpected have no delivered kind: classify them by their own kind (they are outside doc strings by construction)
    unexpected = {}
    for ln in r.unexpected:
        if 1 <= ln <= len(lines):
            prev = [dialects[k] for k in sorted(dialects) if k < ln]
            unexpected[ln] = M.own_kind(lines[ln - 1] + '\n', prev[-1] if prev else 'en', None)
    return {'lines': lines, 'kinds': kinds, 'states': states, 'final_nl': final_nl, 'rejected': r.status != 'ok', 'unexpected': unexpected}


_TABLE = None


def expects_empty(state):
    global _TABLE
    if _TABLE is None:
        _TABLE = R.java_table()
    return state in _TABLE and any(a['tok'] == 'Empty' for a in _TABLE[state]['alts'])


def in_description(state):
    """Description states: free text is expected, the doc string delimiter is too (so it is not a doc string state)."""
    global _TABLE
    if _TABLE is None:
        _TABLE = R.java_table()
    toks = [a['tok'] for a in _TABLE.get(state, {'alts': []})['alts']]
    return 'Other' in toks and 'Comment' in toks


def join(lines, final_nl, eol='\n'):
    return eol.join(lines) + (eol if final_nl and lines else '')


def doc_blocks(an):
    """[(open_line, close_line or last line)] of doc strings, 1-based."""
    blocks = []
    cur = None
    for i in range(1, len(an['lines']) + 1):
        if an['kinds'].get(i) == 'DocStringSeparator':
            if cur is None:
                cur = i
            else:
                blocks.append((cur, i))
                cur = None
    if cur is not None:
        blocks.append((cur, len(an['lines'])))
    return blocks


def check_document(text, acc, origin):
    """Apply every transformation at every admissible position of one base document."""
    if '\r' in text.replace('\r\n', ''):
        # a carriage return that ends no line: the layout transformations are not defined for it, but file-versus-string still is
        base = run_text(text, acc)
        acc.n += 1
        if base[0] != 'exc':
            file_route(text, base, acc, origin)
        return
    an = analyse(text)
    if an is None:
        return
    base = run_text(text, acc)
    acc.n += 1
    if base[0] == 'exc':
        acc.violation('foreign-exception', {'kind': 'pair', 'base': text}, 'base document raised ' + base[1])
        return
    lines, kinds, states = an['lines'], an['kinds'], an['states']
    nl = len(lines)
    blocks = doc_blocks(an)
    in_block = {}
    for a, b in blocks:
        for i in range(a, b + 1):
            in_block[i] = (a, b)

    def compare(name, text2, expected, position, project_comment=None, ast_only=False):
        acc.n += 1
        acc.validated += 1
        acc.nontrivial += 1
        acc.outcomes[name] += 1
        got = run_text(text2)
        case = {'kind': 'pair', 'transformation': name, 'position': position, 'base': text, 'transformed': text2, 'origin': origin}
        if got[0] == 'exc':
            acc.violation('foreign-exception', case, 'transformed document raised ' + got[1])
            return
        if project_comment is not None and got[0] == 'ok':
            g1 = dict(got[1])
            g1['comments'] = [c for c in g1['comments'] if not (c['text'] == project_comment[1] and c['location']['line'] == project_comment[0])]
            if len(g1['comments']) != len(got[1]['comments']) - 1:
                acc.violation(name, case, 'the inserted comment is not reported at its line', observed=got[1]['comments'])
                return
            got = ('ok', g1, got[2])
        if ast_only:
            if got[0] != expected[0]:
                if expected[0] == 'ok':
                    acc.violation(name, case, 'accepted document rejected after the transformation', observed=got[1])
                return
            if got[0] == 'ok' and got[1] != expected[1]:
                acc.violation(name, case, 'AST changed', observed=_diff(got[1], expected[1]))
            return
        if got != expected:
            if got[0] != expected[0]:
                acc.violation(name, case, 'acceptance changed: %s -> %s' % (expected[0], got[0]), observed=got[1] if got[0] != 'ok' else None)
            elif got[0] == 'ok':
                acc.violation(name, case, 'AST / pickles changed beyond what the transformation allows',
                              observed=_diff(got[1], expected[1]) or _diff(got[2], expected[2]))
            else:
                acc.violation(name, case, 'errors changed beyond what the transformation allows', observed=got[1], expected=expected[1])

    acc.states.add((origin, base[0]))
    # CRLF
    t2 = text.replace('\r\n', '\n').replace('\n', '\r\n')
    if t2 != text:
        compare('crlf', t2, base, 'all')
    # final newline
    if base[0] == 'ok':
        compare('final-newline', text[:-1] if text.endswith('\n') else text + '\n', base, 'end', ast_only=True)
        if text.endswith('\r\n'):
            compare('final-newline', text[:-2], base, 'end', ast_only=True)
    # unexpected lines that are keyword / step / tag / row / delimiter lines by their own kind: trailing blanks change nothing,
    # extra indentation changes only the columns reported on that line
    for i, k in sorted(an['unexpected'].items()):
        if k not in STRUCT:
            continue
        raw = lines[i - 1]
        cr = '\r' if raw.endswith('\r') else ''
        core_line = raw[:-1] if cr else raw
        for add in (' ', '\t '):
            compare('trailing-blanks', join(lines[:i - 1] + [core_line + add + cr] + lines[i:], an['final_nl']), base, i)
        if k != 'DocStringSeparator':
            exp = map_result(base, fcol=lambda l, c, i=i: c + 2 if l == i else c)
            compare('indentation', join(lines[:i - 1] + ['  ' + raw] + lines[i:], an['final_nl']), exp, i)
    # trailing blanks / indentation / comment-before per structural line
    struct = [i for i in range(1, nl + 1) if kinds.get(i) in STRUCT]
    for i in struct:
        raw = lines[i - 1]
        cr = '\r' if raw.endswith('\r') else ''
        core_line = raw[:-1] if cr else raw
        for add in (' ', '\t', ' \t  '):
            l2 = lines[:i - 1] + [core_line + add + cr] + lines[i:]
            compare('trailing-blanks', join(l2, an['final_nl']), base, i)
        acc.trans.add(('line', kinds[i]))
    if struct:
        l2 = [((l[:-1] + '  \r') if l.endswith('\r') else l + '  ') if kinds.get(i + 1) in STRUCT else l for i, l in enumerate(lines)]
        compare('trailing-blanks', join(l2, an['final_nl']), base, 'all')
    # indentation: single lines (doc string = block)
    done_blocks = set()
    all_shift = {}
    for i in struct:
        if kinds[i] == 'DocStringSeparator':
            blk = in_block.get(i)
            if blk is None or blk in done_blocks:
                continue
            done_blocks.add(blk)
            rng = range(blk[0], blk[1] + 1)
        else:
            rng = range(i, i + 1)
        for k in (1, 3):
            l2 = list(lines)
            for j in rng:
                l2[j - 1] = ' ' * k + l2[j - 1]
            rs = set(rng)
            exp = map_result(base, fcol=lambda l, c, rs=rs, k=k: c + k if l in rs else c)
            compare('indentation', join(l2, an['final_nl']), exp, i)
        for j in rng:
            all_shift[j] = 2
    if all_shift:
        l2 = [('  ' + l) if (i + 1) in all_shift else l for i, l in enumerate(lines)]
        exp = map_result(base, fcol=lambda l, c: c + 2 if l in all_shift else c)
        compare('indentation', join(l2, an['final_nl']), exp, 'all')
    # blank line at every admissible gap (gap g = before line g+1; g = 0..nl)
    gaps = []
    for g in range(0, nl + 1):
        st = 0 if g == 0 else states.get(g)
        if st is None:
            continue
        if not expects_empty(st):
            # inside a description a blank line is free text - except right before the line that ends the description:
            # there it is a trailing blank line, which is not part of the description
            if not (in_description(st) and g < nl and kinds.get(g + 1) in STRUCT):
                continue
        gaps.append(g)
        for blank in ('', '   '):
            l2 = lines[:g] + [blank] + lines[g:]
            fin = an['final_nl'] if g < nl else True
            if g == nl and not an['final_nl']:
                continue
            exp = map_result(base, fline=lambda l, g=g: l + 1 if l > g else l)
            compare('blank-line', join(l2, fin), exp, g)
    if gaps:
        l2 = []
        shift = {}
        added = 0
        for idx in range(0, nl + 1):
            if idx in gaps and not (idx == nl and not an['final_nl']):
                l2.append('')
                added += 1
            if idx < nl:
                l2.append(lines[idx])
                shift[idx + 1] = idx + 1 + added
        shift[nl + 1] = nl + 1 + added
        exp = map_result(base, fline=lambda l: shift.get(l, l))
        compare('blank-line', join(l2, an['final_nl']), exp, 'all')
    # comment line directly before a structural line (not a closing delimiter)
    for i in struct:
        if kinds[i] == 'DocStringSeparator' and in_block.get(i, (None, None))[0] != i:
            continue
        l2 = lines[:i - 1] + ['  # zz-inserted'] + lines[i - 1:]
        exp = map_result(base, fline=lambda l, i=i: l + 1 if l >= i else l)
        compare('comment-line', join(l2, an['final_nl']), exp, i, project_comment=(i, '  # zz-inserted'))
    file_route(text, base, acc, origin)


def file_route(text, base, acc, origin, nested=0):
    """File instead of string: TokenScanner(path) and source_event(path) against the same text given as a string.
    nested: number of 40-character directories between the scratch directory and the file (long paths)."""
    tmp = tempfile.mkdtemp(prefix='c16-')
    try:
        d = tmp
        for i in range(nested):
            d = os.path.join(d, ('dir%02d-' % i) + 'x' * 34)
        os.makedirs(d, exist_ok=True)
        path = os.path.join(d, 'doc.feature')
        with open(path, 'w', encoding='utf8', newline='') as f:
            f.write(text)
        acc.n += 1
        acc.validated += 1
        acc.outcomes['file'] += 1
        case = {'kind': 'pair', 'transformation': 'file', 'base': text, 'origin': origin}
        ig = IdGenerator()
        try:
            d = Parser(AstBuilder(ig)).parse(TokenScanner(path))
            d['uri'] = 'u'
            got = ('ok', d, Compiler(ig).compile(d))
        except CompositeParserException as e:
            got = ('errors', [I.err_tuple(x)[:3] for x in e.errors])
        except Exception as e:  # noqa: BLE001
            got = ('exc', '%s: %s' % (type(e).__name__, e))
        if got != base:
            acc.violation('file-vs-string', case, 'TokenScanner(path) gives a different result than the same text as a string',
                          observed=got[1] if got[0] != 'ok' else _diff(got[1], base[1]) if base[0] == 'ok' else 'accepted')
        try:
            ev_file = list(GherkinEvents(GherkinEvents.Options(True, True, True)).enum(source_event(path)))
        except Exception as e:  # noqa: BLE001
            ev_file = 'source_event(path) / enum raised %s: %s' % (type(e).__name__, e)
        ev_str = I.events(text, uri=path)[1]
        if ev_file != ev_str:
            acc.violation('file-vs-string', case, 'source_event(path) stream differs from the stream of the same text' + (': ' + ev_file if isinstance(ev_file, str) else ''))
    finally:
        shutil.rmtree(tmp, ignore_errors=True)


def _diff(a, b):
    from .c03 import first_diff
    d = first_diff(a, b)
    return None if d is None else {'at': d[0], 'got': d[1], 'expected': d[2]}


@worker
def job_docs(kind, arg):
    acc = Acc()
    last = None
    if kind == 'corpus':
        for path in arg:
            text = R.read_source(path)
            if text.count('\n') > 200:
                # the 1 700-line file: whole-document forms only (quadratic otherwise)
                base = run_text(text)
                for name, t2 in (('crlf', text.replace('\n', '\r\n')), ('final-newline', text[:-1])):
                    acc.n += 1
                    acc.validated += 1
                    got = run_text(t2)
                    if (name == 'crlf' and got != base) or (name == 'final-newline' and got[:2] != base[:2]):
                        acc.violation(name, {'kind': 'pair', 'transformation': name, 'base_path': path}, 'result changed for ' + path)
                continue
            check_document(text, acc, 'corpus')
            last = text
    elif kind == 'base':
        for bi in arg:
            b = G.base_documents()[bi]
            for lay in ({}, {'indent': G.INDENTS[2]}, {'eol': '\r\n'}, {'cell_pad': ('', '')}, {'final_eol': False}):
                text, exp, r = M.render(b, M.Layout(**lay))
                check_document(text, acc, 'model')
                last = text
    elif kind == 'noisy':
        pi, = arg
        pre = DS.prefixes()[pi]
        for line in [''] + DS.SIGMA_FULL:
            text = pre + line
            check_document(text, acc, 'noisy')
            last = text
    elif kind == 'docstrings':
        # doc strings whose content lines are whitespace-only, of every length around the delimiter's indentation
        d, delim = arg
        menu = [' ' * k for k in range(0, d + 3)] + ['\t', ' \t', 'x', ' ' * d + 'x ', ' ' * (d + 2) + delim[0] * 2]
        for a in menu:
            for b in menu:
                for tail in ('', '    And y\n', '\n  Scenario: t\n   text\n    * z\n'):
                    text = 'Feature: f\n  Background:\n    Given x\n%s%s\n%s\n%s\n%s%s\n%s' % (' ' * d, delim, a, b, ' ' * d, delim, tail)
                    check_document(text, acc, 'docstrings')
                    last = text
    elif kind == 'bigfiles':
        # a multi-byte character astride every power-of-two byte offset a chunked reader could use, at every alignment
        boundary, = arg
        for ch in ('\u00e9', '\u20ac', '\U0001F600'):
            nb = len(ch.encode('utf8'))
            for o in range(1, nb):
                for place in ('comment', 'step', 'cell'):
                    head = {'comment': 'Feature: f\n  Scenario: s\n    Given x\n# ', 'step': 'Feature: f\n  Scenario: s\n    Given ', 'cell': 'Feature: f\n  Scenario: s\n    Given x\n      | '}[place]
                    tailt = {'comment': '\n', 'step': ' end\n    And y\n', 'cell': ' | z |\n'}[place]
                    pad = boundary - o - len(head.encode('utf8'))
                    if pad < 0:
                        continue
                    text = head + 'a' * pad + ch + tailt
                    assert len((head + 'a' * pad).encode('utf8')) == boundary - o
                    check_document(text, acc, 'bigfiles')
                    last = text[:60] + '...'
    elif kind == 'longlines':
        # unexpected and expected lines of 60 ... 1025 characters (message quoting, buffers): every layout transformation
        n, = arg
        y = 'y' * n
        for text in ('Feature: f\n  Scenario: s\n    Given x\n  @t\n    Given ' + y + '\n',
                     'Feature: f\n  Scenario: s\n    Given x\n  Background: ' + y + '\n    Given z\n',
                     'Feature: f\n  Scenario: s\n    Given ' + y + '\n      | ' + y + ' | b |\n      | c |\n',
                     '  ' + y + '\nFeature: f\n',
                     'Feature: f\n  @' + y + ' @u v\n  Scenario: ' + y + '\n'):
            check_document(text, acc, 'longlines')
            last = text[:80]
    elif kind == 'longpaths':
        nested, = arg
        for b in G.base_documents()[:6] + []:
            text = M.render(b)[0]
            base = run_text(text, acc)
            acc.n += 1
            if base[0] != 'exc':
                file_route(text, base, acc, 'longpaths', nested=nested)
            last = text
        for text in ('garbage\n', 'Feature: f\n  Scenario: s\n    Given x\n      | a |\n      | b | c |\n'):
            base = run_text(text, acc)
            file_route(text, base, acc, 'longpaths', nested=nested)
    elif kind == 'edits':
        mc, bi = arg
        for text in DS.single_edits(DS.edit_bases(mc)[bi]):
            check_document(text, acc, 'edits')
            last = text
    elif kind == 'repetition':
        for (what, n), f in G.repetition_documents():
            if what != G.REPEATABLE[arg[0]] or n not in (1, 2, 3, 4, 10, 11):
                continue
            text, exp, r = M.render(f)
            if not M.roles_ok(r):
                continue
            check_document(text, acc, 'repetition')
            last = text
    elif kind == 'pairs':
        shard, nshards, quick = arg
        kept = 0
        for key, f in G.pair_documents():
            if quick and (key[3] not in (1, 3) or key[2] not in ('none', 'args-with-placeholders')):
                continue
            kept += 1
            if kept % nshards != shard:
                continue
            text, exp, r = M.render(f)
            if not M.roles_ok(r):
                continue
            check_document(text, acc, 'pairs')
            last = text
    elif kind == 'structure':
        budget, shard, nshards = arg
        for f, trailer in G.structure(budget, shard, nshards):
            text, exp, r = M.render(f, trailer=trailer)
            if not M.roles_ok(r):
                continue
            check_document(text, acc, 'structure')
            last = text
    acc.sample({'base_document': last})
    return acc


def run(ctx):
    probs = R.selftest()
    ctx.selftest(not probs, 'reference pipeline reproduces the acceptance corpus (%s)' % (probs[:3] or 'ok'))
    good, bad = R.corpus()
    ctx.alphabet = {'transformations': ['crlf', 'file', 'trailing-blanks', 'indentation', 'blank-line', 'comment-line', 'final-newline'],
                    'trailing': [' ', '\t', ' \t  '], 'indent_by': [1, 3], 'blank_lines': ['', '   ']}
    ctx.rule = ('pairs (base document, transformed document): every transformation at every admissible line / gap of every base document, and at all of them together; '
                'all pairs are non-trivial (two executions compared under the projection the relation allows)')
    ctx.assumptions = ['line roles and admissible gaps are decided by the reference machine (kind delivered per line, Empty expected in the state after a line)',
                       'documents with carriage returns outside CRLF pairs are excluded, as the property states']
    files = good + bad
    ctx.level('corpus (52 files)', [job_docs.job('corpus', files[i:i + 2]) for i in range(0, len(files), 2)])
    nb = len(G.base_documents())
    ctx.level('model base documents x 5 layouts', [job_docs.job('base', [b]) for b in range(nb)])
    ctx.level('noisy documents: witness prefix . line', [job_docs.job('noisy', (pi,)) for pi in range(len(DS.prefixes()))])
    ctx.level('doc strings with whitespace-only content lines around the delimiter indentation',
              [job_docs.job('docstrings', (d, delim)) for d in (0, 1, 2, 4, 6) for delim in ('"""', '```')])
    ctx.level('files with a multi-byte character astride a power-of-two byte offset',
              [job_docs.job('bigfiles', (b,)) for b in ctx.pick((1024, 4096, 8192, 16384, 65536), (512, 1024, 2048, 4096, 8192, 16384, 32768, 65536, 131072, 262144, 1048576))])
    ctx.level('lines of 60..1025 characters, expected and unexpected', [job_docs.job('longlines', (n,)) for n in (60, 94, 99, 100, 101, 127, 128, 129, 255, 256, 257, 1023, 1025)])
    ctx.level('files under long paths (6..24 nested directories, 300..1100 characters)', [job_docs.job('longpaths', (n,)) for n in (6, 7, 12, 24)])
    mc = ctx.pick(100, 250)
    ctx.level('single edits of corpus and base documents <= %d characters' % mc, [job_docs.job('edits', (mc, bi)) for bi in range(len(DS.edit_bases(mc)))])
    ctx.level('one construct repeated 1..4, 10, 11 times', [job_docs.job('repetition', (i,)) for i in range(len(G.REPEATABLE))])
    ctx.level('pairs of feature modules', [job_docs.job('pairs', (s, 64, ctx.quick)) for s in range(64)])
    n = ctx.pick(4, 6)
    ctx.level('structure documents N<=%d' % n, [job_docs.job('structure', (n, s, 192)) for s in range(192)])


def replay(case):
    acc = Acc()
    if 'base' in case:
        check_document(case['base'], acc, 'replay')
    return [v[0]['message'] + ' observed=%r' % (v[0].get('observed'),) for v in acc.viol.values()]
