"""C11 - ids are unique, dense, canonically ordered; every pickle reference resolves.

1  Document models (E5, structure <= N lines and deviations): parsed and compiled with one fresh incrementing
   generator; the ids of the AST must be exactly the model's post-order numbering (rows, steps, examples (rows, tags,
   node), scenario tags, scenario, ..., rule tags, rule, feature tags), pickle ids continue (steps before their
   pickle), the multiset of all ids is {0..n-1}, and every astNodeIds / astNodeId resolves to a node of the right kind.
2  Histories: every sequence of <= h documents from a pool (accepted, rejected at various depths, empty) through one
   GherkinEvents and through one Parser + Compiler pair sharing a generator: all ids handed out are pairwise distinct
   and each document's ids are its fresh-generator ids plus a constant."""
from __future__ import annotations

import itertools

from ..core import Acc, worker
from .. import impl as I
from .. import gen as G
from .. import ref as R
from .. import pick as P

from gherkin.parser import Parser
from gherkin.ast_builder import AstBuilder
from gherkin.pickles.compiler import Compiler
from gherkin.stream.id_generator import IdGenerator
from gherkin.stream.gherkin_events import GherkinEvents
from gherkin.errors import ParserError


def ids_skeleton(o):
    if isinstance(o, dict):
        out = {}
        for k, v in o.items():
            if k == 'id':
                out[k] = v
            elif isinstance(v, (dict, list)):
                out[k] = ids_skeleton(v)
        return out
    if isinstance(o, list):
        return [ids_skeleton(v) for v in o]
    return None


def collect(o, kinds, kind=None):
    """id -> kind for every node of an AST."""
    if isinstance(o, dict):
        if 'id' in o:
            k = ('step' if 'keywordType' in o else 'row' if 'cells' in o else 'tag' if set(o) == {'id', 'location', 'name'} else
                 'examples' if 'tableBody' in o else 'scenario' if 'examples' in o else 'background' if 'steps' in o else 'rule' if 'children' in o else 'other')
            kinds.setdefault(o['id'], []).append(k)
        for v in o.values():
            collect(v, kinds)
    elif isinstance(o, list):
        for v in o:
            collect(v, kinds)
    return kinds


def check_ids(doc, pickles, acc, case, base=0):
    """Density, uniqueness and reference resolution for one document processed with one generator starting at `base`."""
    kinds = collect(doc, {})
    all_ids = list(kinds.keys())
    dup = [i for i, k in kinds.items() if len(k) > 1]
    if dup:
        acc.violation('duplicate-id', case, 'ids used twice in the AST: %s' % dup[:5])
        return
    pid = []
    for p in pickles:
        pid.append(p.get('id'))
        pid.extend(s.get('id') for s in p.get('steps', []))
    try:
        nums = sorted(int(i) for i in all_ids + pid)
    except (TypeError, ValueError):
        acc.violation('id-type', case, 'ids are not decimal strings: %s' % (all_ids + pid)[:6])
        return
    if not all(isinstance(i, str) for i in all_ids + pid):
        acc.violation('id-type', case, 'ids are not strings')
    if nums != list(range(base, base + len(nums))):
        acc.violation('ids-not-dense', case, 'ids handed out for one document are not %d..%d without gaps or repeats' % (base, base + len(nums) - 1), observed=nums[:40])
        return
    for p in pickles:
        a = p.get('astNodeIds', [])
        want = ['scenario'] + (['row'] if len(a) == 2 else [])
        if [kinds.get(x, ['?'])[0] for x in a] != want:
            acc.violation('dangling-reference', case, 'pickle %s points at %s' % (p.get('id'), [(x, kinds.get(x)) for x in a]))
        for s in p.get('steps', []):
            a = s.get('astNodeIds', [])
            want = ['step'] + (['row'] if len(a) == 2 else [])
            if [kinds.get(x, ['?'])[0] for x in a] != want:
                acc.violation('dangling-reference', case, 'pickle step %s points at %s' % (s.get('id'), [(x, kinds.get(x)) for x in a]))
        for t in p.get('tags', []):
            if kinds.get(t.get('astNodeId'), ['?'])[0] != 'tag':
                acc.violation('dangling-reference', case, 'pickle tag %r does not point at an AST tag' % (t,))


def check_model(text, exp, renderer, acc, case):
    acc.n += 1
    acc.validated += 1
    a = I.full(text, default=renderer.L.dialect, acc=acc)
    if a[0] != 'ok':
        acc.violation('well-formed-rejected', case, 'well-formed document rejected or compile failed: %s' % (a[1],))
        return
    doc, pickles = a[1], a[2]
    n_ast = P.count_ids(exp)
    if n_ast > 1:
        acc.nontrivial += 1
    acc.outcomes[min(n_ast, 20)] += 1
    got, want = ids_skeleton(doc), ids_skeleton(exp)
    want['uri'] = None
    got.pop('uri', None)
    want.pop('uri', None)
    if got != want:
        from .c03 import first_diff
        d = first_diff(got, want)
        acc.violation('id-order', case, 'AST ids are not the canonical post-order numbering, first difference at %s' % (d[0] if d else '?'),
                      observed=d[1] if d else None, expected=d[2] if d else None)
        return
    # pickle ids continue the numbering: steps before their pickle
    ids = R.IdGen()
    ids.n = n_ast
    d2 = dict(doc)
    expp = R.ref_compile(d2, 'u', ids)
    if P.p_c11(pickles) != P.p_c11(expp):
        acc.violation('pickle-id-order', case, 'pickle / pickle step ids are not assigned steps-first in document order',
                      observed=P.p_c11(pickles)[:3], expected=P.p_c11(expp)[:3])
        return
    check_ids(doc, pickles, acc, case)


def check_ast(ast, acc, case):
    """Compiler shapes (backgrounds x rules x outlines with several rows / tables): pickle ids continue the AST numbering,
    steps before their pickle, dense, unique, references resolve - with a fresh compiler and with a reused one."""
    acc.n += 1
    acc.validated += 1
    got, exp, before, after = P.compile_both(ast)
    for route, res in P.routes(ast, got):
        if res[0] != 'ok':
            acc.violation('compile-exception', case, 'Compiler.compile (%s) raised %s' % (route, res[1]))
            return
        if P.p_c11(res[1]) != P.p_c11(exp):
            acc.violation('pickle-id-order', case, route + ': pickle / pickle step ids are not assigned steps-first in document order, continuing the AST numbering',
                          observed=P.p_c11(res[1])[:3], expected=P.p_c11(exp)[:3])
            return
        refs = lambda pk: [(p.get('astNodeIds'), [s.get('astNodeIds') for s in p.get('steps', [])], [t.get('astNodeId') for t in p.get('tags', [])]) for p in pk]
        if refs(res[1]) != refs(exp):
            g, e = refs(res[1]), refs(exp)
            i = next((i for i, (x, y) in enumerate(zip(g, e)) if x != y), min(len(g), len(e)))
            acc.violation('pickle-references', case, route + ': pickle %d does not point back at its scenario / example row / steps (and rows) / tags' % i,
                          observed=g[i:i + 1], expected=e[i:i + 1])
            return
        check_ids(before, res[1], acc, case)
    if got[1]:
        acc.nontrivial += 1


def shapes(family, quick):
    from . import c07, c06
    if family == 'examples-shapes':
        for i, m in enumerate(c06.shapes('feature-level', True)):
            if quick and i % 3:
                continue
            yield m
        return
    yield from c07.shapes(family, quick)


POOL = [
    'Feature: a\n  Scenario: s\n    Given x\n',
    '',
    'Feature: b\n  @t\n  Scenario Outline: o\n    Given <a>\n    Examples:\n      | a |\n      | 1 |\n      | 2 |\n',
    'Feature: c\n  Scenario: s\n    Given x\n      | a | b |\n      | c |\n',
    'Feature: d\n  Background:\n    Given b\n  Rule: r\n    @x @y\n    Scenario: s\n      Given x\n        """\n        d\n        """\n',
    'garbage\n',
    'Feature: e\n  Scenario: s\n    Given x\n  @bad tag\n  Scenario: t\n',
    '#language: fr\nFonctionnalité: f\n  Scénario: s\n    Soit x\n',
    'Feature: g\n  Scenario: s\n    Given x\n      """\n      open\n',
    '# only a comment\n',
]


def norm_ids(o, off):
    if isinstance(o, dict):
        return {k: (str(int(v) - off) if k in ('id', 'astNodeId') and isinstance(v, str) and v.isdigit() else
                    [str(int(x) - off) for x in v] if k == 'astNodeIds' else norm_ids(v, off)) for k, v in o.items()}
    if isinstance(o, list):
        return [norm_ids(v, off) for v in o]
    return o


def solo(text):
    return I.events(text)[1]


def all_ids(o, out=None):
    out = [] if out is None else out
    if isinstance(o, dict):
        for k, v in o.items():
            if k == 'id':
                out.append(v)
            else:
                all_ids(v, out)
    elif isinstance(o, list):
        for v in o:
            all_ids(v, out)
    return out


def offset_of(evs, want):
    """Offset between a document's envelopes and its solo envelopes, read off the first id (no access to the generator)."""
    a, b = all_ids(evs), all_ids(want)
    if not a or not b:
        return 0
    try:
        return int(a[0]) - int(b[0])
    except (TypeError, ValueError):
        return 0


class CountingIds(IdGenerator):
    handed_out = 0

    def get_next_id(self):
        self.handed_out += 1
        return super().get_next_id()


def interleavings(n1, n2):
    def rec(a, b, pre):
        if a == 0 and b == 0:
            yield list(pre)
            return
        if a:
            pre.append(0)
            yield from rec(a - 1, b, pre)
            pre.pop()
        if b:
            pre.append(1)
            yield from rec(a, b - 1, pre)
            pre.pop()
    yield from rec(n1, n2, [])


@worker
def job_generators(i):
    """Two sources of one stream whose enum() generators are drawn alternately - every interleaving of the next() calls:
    all ids of the stream stay pairwise distinct and each source yields the envelope kinds it yields alone."""
    acc = Acc()
    solos = [solo(t) for t in POOL]
    sched = None
    for j in range(len(POOL)):
        n1, n2 = len(solos[i]) + 1, len(solos[j]) + 1
        for sched in interleavings(n1, n2):
            acc.n += 1
            acc.validated += 1
            acc.nontrivial += 1
            ge = GherkinEvents(GherkinEvents.Options(print_source=True, print_ast=True, print_pickles=True))
            gens = [ge.enum({'source': {'uri': 'a', 'data': POOL[i], 'mediaType': 'text/x.cucumber.gherkin+plain'}}),
                    ge.enum({'source': {'uri': 'b', 'data': POOL[j], 'mediaType': 'text/x.cucumber.gherkin+plain'}})]
            got = [[], []]
            case = {'kind': 'generators', 'documents': [i, j], 'schedule': sched}
            try:
                for w in sched:
                    try:
                        got[w].append(next(gens[w]))
                    except StopIteration:
                        pass
            except Exception as e:  # noqa: BLE001
                acc.violation('stream-exception', case, '%s: %s' % (type(e).__name__, e))
                continue
            ids = all_ids(got[0]) + all_ids(got[1])
            acc.states.add((i, j, len(set(ids))))
            acc.trans.add((i, j, tuple(sched[:4])))
            if len(ids) != len(set(ids)):
                dup = sorted({x for x in ids if ids.count(x) > 1})[:5]
                acc.violation('stream-id-reuse', case, 'ids handed out twice in one stream when two sources are drawn alternately: %s' % dup)
                continue
            kinds = [[next(iter(e)) for e in g] for g in got]
            want = [[next(iter(e)) for e in solos[i]], [next(iter(e)) for e in solos[j]]]
            if kinds != want:
                acc.violation('stream-kinds', case, 'envelope kinds change when two sources are drawn alternately', observed=kinds, expected=want)
    acc.sample({'documents': [POOL[i][:60], POOL[-1][:60]], 'schedule': sched})
    return acc


def threads_level(acc):
    """One stream used from two threads one after the other (no concurrency): ids still come from one generator."""
    import threading
    for i in range(len(POOL)):
        for j in range(len(POOL)):
            ge = GherkinEvents(GherkinEvents.Options(print_source=False, print_ast=True, print_pickles=True))
            a = I.events(POOL[i], ge=ge)[1]
            box = []
            t = threading.Thread(target=lambda: box.append(I.events(POOL[j], ge=ge)))
            t.start()
            t.join()
            acc.n += 1
            acc.validated += 1
            if not box or box[0][0] != 'ok':
                acc.violation('stream-exception', {'kind': 'threads', 'documents': [i, j]}, 'second document on another thread: %r' % (box[:1],))
                continue
            ids = all_ids(a) + all_ids(box[0][1])
            if len(ids) != len(set(ids)):
                acc.violation('stream-id-reuse', {'kind': 'threads', 'documents': [i, j]},
                              'ids of one stream collide when its second document is handled on another thread (after the first finished)')



@worker
def job_histories(first, h):
    acc = Acc()
    solos = [solo(t) for t in POOL]
    for n in range(1, h + 1):
        for rest in itertools.product(range(len(POOL)), repeat=n - 1):
            hist = (first,) + rest
            case = {'kind': 'history', 'history': list(hist)}
            acc.n += 1
            acc.validated += 1
            acc.nontrivial += 1
            # one GherkinEvents (also with its parser in stop-at-first-error mode)
            for stop, with_pickles in ((False, True), (True, True), (False, False)):
              ge = GherkinEvents(GherkinEvents.Options(print_source=False, print_ast=True, print_pickles=with_pickles))
              ge.parser.stop_at_first_error = stop
              seen = set()
              total, dense = 0, True
              for i in hist:
                  r = I.events(POOL[i], ge=ge, opts=(False, True, with_pickles))
                  if r[0] != 'ok':
                      acc.violation('stream-exception', case, r[1])
                      break
                  evs = [e for e in r[1] if 'source' not in e]
                  want = [e for e in solos[i] if 'source' not in e and (with_pickles or 'pickle' not in e)]
                  off = offset_of(evs, want)
                  if stop and want and 'parseError' in want[0]:
                      dense = False
                      if not evs or any('parseError' not in e for e in evs):
                          acc.violation('history-ids', case, 'rejected document %d in stop-at-first-error mode does not yield parse errors only' % i)
                          break
                      continue
                  if norm_ids(evs, off) != want:
                      acc.violation('history-ids', case, 'document %d of the history: ids are not the fresh-generator ids plus the running offset %d' % (i, off))
                      break
                  new = set()
                  for e in evs:
                      new |= set(collect(e, {}).keys())
                      if 'pickle' in e:
                          new.add(e['pickle']['id'])
                          new |= {s['id'] for s in e['pickle']['steps']}
                  if new & seen:
                      acc.violation('history-id-reuse', case, 'ids reused across documents of one stream: %s' % sorted(new & seen)[:5])
                      break
                  seen |= new
                  # all ids of one stream are 0, 1, 2, ... without gaps: an accepted document starts where the accepted documents before it
                  # ended (ids are only drawn for what the stream was asked to produce; a rejected document may have drawn some)
                  if evs and 'parseError' in evs[0]:
                      dense = False
                  elif dense and new:
                      if off != total:
                          acc.violation('stream-ids-not-dense', case, 'document %d of the history (pickles %s): its ids start at %d, the accepted documents before it used 0..%d'
                                        % (i, 'on' if with_pickles else 'off', off, total - 1))
                          break
                      total += len(new)
                  acc.states.add(('offset>0', off > 0, i))
                  acc.trans.add((i, off > 0, len(new) > 0))
            # one Parser + Compiler pair sharing a generator
            ig = CountingIds()
            p = Parser(AstBuilder(ig))
            c = Compiler(ig)
            seen = set()
            for i in hist:
                off = ig.handed_out
                try:
                    d = p.parse(I.StringScanner(POOL[i]))
                    d['uri'] = 'u'
                    pk = c.compile(d)
                except ParserError:
                    continue
                check_ids(d, pk, acc, case, base=off)
                new = set(collect(d, {}).keys()) | {x['id'] for x in pk} | {s['id'] for x in pk for s in x['steps']}
                if new & seen:
                    acc.violation('history-id-reuse', case, 'ids reused across documents parsed by one parser/compiler pair')
                    break
                seen |= new
            # a generator of the caller's own making (same protocol - get_next_id() returning decimal strings - but not derived from the
            # library's class): either it is refused outright (TypeError) or every id comes from it; silently numbering from elsewhere is not an option
            class OwnIds:
                def __init__(self):
                    self.n = 0

                def get_next_id(self):
                    self.n += 1
                    return str(self.n - 1)
            try:
                ig = OwnIds()
                p = Parser(AstBuilder(ig))
                c = Compiler(ig)
            except TypeError:
                p = None
            if p is not None:
                for i in hist:
                    off = ig.n
                    try:
                        d = p.parse(I.StringScanner(POOL[i]))
                        d['uri'] = 'u'
                        pk = c.compile(d)
                    except ParserError:
                        continue
                    except TypeError:
                        break
                    check_ids(d, pk, acc, dict(case, generator='caller-defined class'), base=off)
                    n_ids = len(collect(d, {})) + len(pk) + sum(len(x['steps']) for x in pk)
                    if ig.n - off != n_ids:
                        acc.violation('foreign-ids', dict(case, generator='caller-defined class'),
                                      'the document carries %d ids but the generator it was given handed out %d' % (n_ids, ig.n - off))
                        break
            # the default wiring: Parser() builds its own AST builder and id generator; the documents it parses are one stream
            p = Parser()
            seen = set()
            top = -1
            for i in hist:
                try:
                    d = p.parse(I.StringScanner(POOL[i]))
                except ParserError:
                    continue
                ids = list(collect(d, {}).keys())
                try:
                    nums = sorted(int(x) for x in ids)
                except (TypeError, ValueError):
                    acc.violation('id-type', case, 'default wiring: ids are not decimal strings: %s' % ids[:6])
                    break
                if set(ids) & seen or (nums and nums[0] <= top):
                    acc.violation('history-id-reuse', case, 'ids reused across documents parsed by one Parser() with its own builder and generator: %s' % sorted(set(ids) & seen)[:5])
                    break
                if nums and nums != list(range(nums[0], nums[0] + len(nums))):
                    acc.violation('ids-not-dense', case, 'default wiring: ids of one document are not consecutive', observed=nums[:40])
                    break
                seen |= set(ids)
                top = nums[-1] if nums else top
                gen = getattr(getattr(p, 'ast_builder', None), 'id_generator', None)
                if isinstance(gen, IdGenerator):
                    d['uri'] = 'u'
                    pk = Compiler(gen).compile(d)
                    check_ids(d, pk, acc, case, base=nums[0] if nums else top + 1)
                    pid = {x['id'] for x in pk} | {s['id'] for x in pk for s in x['steps']}
                    if pid & seen:
                        acc.violation('history-id-reuse', case, 'default wiring: pickle ids repeat ids handed out before')
                        break
                    seen |= pid
                    top = max([top] + [int(x) for x in pid])
    acc.sample({'history': [POOL[i] for i in hist]})
    return acc


def run(ctx):
    ctx.rule = ('document models (structure <= N lines, deviations) parsed + compiled with a fresh generator, ids compared with the model post-order numbering; '
                'histories = all sequences of <= h documents from a pool of %d through one stream and one parser/compiler pair; non-trivial = documents with more than one id / all histories' % len(POOL))
    ctx.alphabet = {'history_pool': POOL}
    G.run_families(ctx, __name__, 6, 7, [0, 6])
    from .. import astgen as A
    ns = 16
    for fam in ('no-rules', 'rules', 'examples-shapes', 'pairs', 'repetition'):
        ctx.level('compiler shapes:' + fam, [A.job_shapes.job(__name__, fam, s, ns, ctx.quick) for s in range(ns)])
    from .. import docspace as DS
    mc = ctx.pick(250, 1500)
    ctx.level('single edits of corpus and base documents <= %d characters via parser' % mc, [A.job_edits.job(__name__, mc, bi) for bi in range(len(DS.edit_bases(mc)))])
    from .c17 import job_script_multi
    ctx.level('generate_events script over several paths is one stream (ids continue)', [job_script_multi.job(f) for f in ([], ['--no-source'])])
    ctx.level('two sources drawn alternately: all interleavings of next()', [job_generators.job(i) for i in range(len(POOL))])
    acc = Acc()
    threads_level(acc)
    ctx.acc.merge(acc)
    h = ctx.pick(3, 4)
    ctx.level('histories h<=%d' % h, [job_histories.job(i, h) for i in range(len(POOL))])
    G.run_deep(ctx, __name__, 8)


def replay(case):
    acc = Acc()
    if case.get('kind') == 'ast':
        check_ast(case['ast'], acc, case)
        return [v[0]['message'] for v in acc.viol.values()]
    if case.get('kind') == 'history':
        # re-run the history family member
        hist = case['history']
        ge = GherkinEvents(GherkinEvents.Options(print_source=False, print_ast=True, print_pickles=True))
        for i in hist:
            r = I.events(POOL[i], ge=ge)
            w = [e for e in solo(POOL[i]) if 'source' not in e]
            off = offset_of([e for e in r[1] if 'source' not in e], w)
            if norm_ids([e for e in r[1] if 'source' not in e], off) != w:
                return ['document %d of the history: ids are not the fresh ids plus offset' % i]
        return []
    a = I.full(case['text'])
    r = R.reference(case['text'])
    if a[0] != 'ok':
        return ['rejected']
    if ids_skeleton(a[1]) != ids_skeleton(r.doc) or P.p_c11(a[2]) != P.p_c11(r.pickles):
        return ['ids differ from the canonical numbering']
    check_ids(a[1], a[2], acc, case)
    return [v[0]['message'] for v in acc.viol.values()]
