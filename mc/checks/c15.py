"""C15 - no hidden state: results are independent of earlier and concurrent parses.

Histories  every ordered pair and triple (thorough: quadruple) of documents from a pool of 14 state-perturbing
           documents fed to ONE Parser / TokenMatcher / Compiler (default dialect en and fr, with and without
           stop_at_first_error); every result must equal the result of fresh instances (ids modulo offset);
           DIALECTS unchanged; compile leaves its argument unchanged and is repeatable; a second process with a
           different hash seed produces identical output.
Schedules  each concurrent parse runs in its own thread with its own Parser; a TokenScanner subclass hands a baton
           back to the explorer at every read() (this includes look-ahead reads), so exactly one parse runs between
           two read points; ALL interleavings of the read points of two (thorough: three) parses are explored and
           every result must equal the solo result.  A failing schedule is replayed twice and must reproduce."""
from __future__ import annotations

import copy
import hashlib
import itertools
import json
import os
import subprocess
import sys
import threading

from .. import core
from ..core import Acc, worker
from .. import impl as I

from gherkin.parser import Parser
from gherkin.token_matcher import TokenMatcher
from gherkin.token_matcher_markdown import GherkinInMarkdownTokenMatcher
from gherkin.token import Token
from gherkin.gherkin_line import GherkinLine
from gherkin.ast_builder import AstBuilder
from gherkin.pickles.compiler import Compiler
from gherkin.stream.id_generator import IdGenerator
from gherkin.errors import CompositeParserException, ParserException
from gherkin import dialect as _dialect

POOL = [
    "Feature: a\n  Scenario: s\n    Given x\n",
    "#language: fr\nFonctionnalité: b\n  Scénario: t\n    Soit y\n",
    "#language: no\nEgenskap: c\n  Abstrakt Scenario: o\n    Gitt <a>\n    Eksempler:\n      | a |\n      | 1 |\n",
    "Feature: d\n  Scenario: s\n    Given x\n      \"\"\"\n      open\n",
    "Feature: e\n  Scenario: s\n    Given x\n        ```\n   open\n",
    "Feature: f\n  Scenario: s\n    Given x\n    \"\"\"\n      closed\n    \"\"\"\n",
    "Feature: g\n  Scenario: s\n    Given x\n  @t\n  # c\n  garbage\n",
    "x\n" * 12,
    "#language: xx\nFeature: h\n",
    "# c1\nFeature: i\n # c2\n  Scenario: s\n# c3\n",
    "Feature: j\n  Background:\n    Given b\n  Rule: r\n    Background:\n      Given rb\n    Scenario: s\n      Given x\n",
    "Feature: k\n  Scenario Outline: o\n    Given <a>\n    @t\n    Examples:\n      | a |\n      | 1 |\n",
    "",
    "Feature: l\n  Scenario: s\n    Given x\n      | a |\n      | a | b |\n",
    "x\nFeature: m\n  Scenario: s\n",
    "# lost comment\n" + "y\n" * 12,
    "#language: ht\nKarakteristik: n\n  Senaryo: s\n    Sipoze a\n    Ak b\n",
    "#language: sk\nFunkcia: o\n  Scenár: s\n    Pokiaľ a\n    Ak b\n",
    "@f1 @f2\nFeature: p\n  @r1\n  Rule: one\n    @s1\n    Scenario: s\n      Given x\n  @r2 @r3\n  Rule: two\n    Scenario Outline: o\n      Given <a>\n      @e\n      Examples:\n        | a |\n        | 1 |\n",
    "Feature: q\n  Scenario Outline: no table\n    Given x\n    Examples:\n    @t\n    Examples: header only\n      | a |\n",
    "Fonctionnalité: r\n  Scénario: s\n    Soit a\n    Sachant b\n",
    "Fonctionnalité: s\n  Scénario: s\n    Sachant que c\n    Etant donné qu'd\n    Lorsqu'e\n",
]
PERTURBS = ['plain English', 'switches to fr', 'switches to no + outline', 'ends inside """ doc string (indent 6)', 'ends inside ``` doc string',
            'closed doc string at indent 4', 'rejected with non-empty look-ahead queue', '11 errors (parse aborted)', 'unknown language',
            'comments everywhere', 'Rule + Backgrounds', 'tags before Examples', 'empty', 'ragged table',
            'first error identical to the first error of the 11-error document', 'comment + 11 errors (document node never built)',
            "ht: 'Ak ' is a conjunction", "sk: 'Ak ' is a when keyword", 'tags on feature, two rules, scenario, examples', 'Examples without a table and with a header only',
            "French without a header, last step 'Sachant '", "French without a header, first step 'Sachant que ' (a keyword another keyword is a prefix of)"]


def norm(o):
    ids = []

    def collect(x):
        if isinstance(x, dict):
            for k, v in x.items():
                if k == 'id':
                    ids.append(int(v))
                else:
                    collect(v)
        elif isinstance(x, list):
            for v in x:
                collect(v)
    collect(o)
    m = min(ids) if ids else 0

    def sub(x):
        if isinstance(x, dict):
            return {k: (str(int(v) - m) if k in ('id', 'astNodeId') else [str(int(i) - m) for i in v] if k == 'astNodeIds' else sub(v)) for k, v in x.items()}
        if isinstance(x, list):
            return [sub(v) for v in x]
        return x
    return sub(o)


def one(parser, compiler, text, matcher, stop):
    parser.stop_at_first_error = stop
    try:
        d = parser.parse(I.StringScanner(text), matcher)
    except CompositeParserException as e:
        return ('errs', [I.err_tuple(x) for x in e.errors], e)
    except ParserException as e:
        return ('err', [I.err_tuple(e)])
    except Exception as e:  # noqa: BLE001
        return ('exc', '%s: %s' % (type(e).__name__, e))
    # asking for the result again (Parser.get_result is public) is a read: same document, nothing consumed
    try:
        frozen = json.dumps(d, sort_keys=True, default=repr)
        again = parser.get_result()
        if again != d or json.dumps(d, sort_keys=True, default=repr) != frozen or json.dumps(again, sort_keys=True, default=repr) != frozen:
            return ('exc', 'Parser.get_result() after parse() returned does not give the same document again (or changes the one returned): %s' % (str(again)[:120],))
    except Exception as e:  # noqa: BLE001
        return ('exc', 'Parser.get_result() after parse(): %s: %s' % (type(e).__name__, e))
    d = dict(d)
    d['uri'] = 'u'
    before = copy.deepcopy(d)
    try:
        pk = compiler.compile(d)
        pk2 = compiler.compile(d)
    except Exception as e:  # noqa: BLE001
        return ('exc', 'compile %s: %s' % (type(e).__name__, e))
    if d != before:
        return ('modified', None)
    both = norm({'doc': d, 'pickles': pk})
    return ('ok', both, _strip_ids(pk) == _strip_ids(pk2), (d, pk, json.dumps([d, pk], sort_keys=True, default=repr)))


def _strip_ids(o):
    if isinstance(o, dict):
        return {k: _strip_ids(v) for k, v in o.items() if k != 'id'}
    if isinstance(o, list):
        return [_strip_ids(v) for v in o]
    return o


def fresh(text, default, stop, own_matcher):
    ig = IdGenerator()
    return one(Parser(AstBuilder(ig)), Compiler(ig), text, TokenMatcher(default) if own_matcher is True else None, stop)


# (default dialect, stop_at_first_error, matcher: True = one matcher passed to every parse, False = never passed,
#  'mixed' = a matcher for another dialect passed to every parse but the last, which passes none)
CONFIGS = [('en', False, True), ('fr', False, True), ('en', True, True), ('en', False, False), ('fr', True, True), ('no', False, 'mixed'), ('fr', True, 'mixed')]


@worker
def job_histories(first, h, config):
    default, stop, own_matcher = CONFIGS[config]
    acc = Acc()
    fr = [fresh(t, default, stop, own_matcher) for t in POOL]
    for i, r in enumerate(fr):
        if r[0] == 'modified':
            acc.violation('compile-modifies-input', {'kind': 'history', 'history': [i], 'config': config}, 'Compiler.compile modified the document it was given')
        if r[0] == 'ok' and not r[2]:
            acc.violation('compile-not-repeatable', {'kind': 'history', 'history': [i], 'config': config}, 'compiling the same document twice gives different pickles')
        if r[0] == 'exc':
            acc.violation('foreign-exception', {'kind': 'history', 'history': [i], 'config': config}, r[1])
    snap = copy.deepcopy(_dialect.DIALECTS)
    hist = None
    for n in range(2, h + 1):
        for rest in itertools.product(range(len(POOL)), repeat=n - 1):
            hist = (first,) + rest
            ig = IdGenerator()
            p = Parser(AstBuilder(ig))
            c = Compiler(ig)
            m = TokenMatcher(default) if own_matcher else None
            acc.n += 1
            acc.validated += 1
            acc.nontrivial += 1
            r = None
            live = []
            live_errors = []
            for pos, i in enumerate(hist):
                r = one(p, c, POOL[i], (None if (own_matcher == 'mixed' and pos == len(hist) - 1) else m), stop)
                if r[0] == 'ok':
                    live.append((i, r[3]))
                elif r[0] == 'errs':
                    live_errors.append((i, r[2], list(r[1])))
            for i, exc, was in live_errors:
                try:
                    now = [I.err_tuple(x) for x in exc.errors]
                except Exception as e:  # noqa: BLE001
                    now = '%s: %s' % (type(e).__name__, e)
                if now != was:
                    acc.violation('result-modified-later', {'kind': 'history', 'history': list(hist), 'config': config},
                                  'the error raised for document %d (%s) lists other errors after later parses by the same parser' % (i, PERTURBS[i]),
                                  observed=str(now)[:300], expected=str(was)[:300])
                    break
            for i, (d, pk, frozen) in live:
                if json.dumps([d, pk], sort_keys=True, default=repr) != frozen:
                    acc.violation('result-modified-later', {'kind': 'history', 'history': list(hist), 'config': config},
                                  'the result returned for document %d (%s) was modified by a later parse / compile of the same instances' % (i, PERTURBS[i]))
                    break
            acc.states.add((hist[-2], hist[-1]))
            acc.trans.add((hist[-2], hist[-1], r[0]))
            acc.outcomes[r[0]] += 1
            if r[:2] != fr[hist[-1]][:2]:
                acc.violation('history-dependence', {'kind': 'history', 'history': list(hist), 'config': config},
                              'result of document %d (%s) after history %s differs from the result of fresh instances'
                              % (hist[-1], PERTURBS[hist[-1]], [PERTURBS[i] for i in hist[:-1]]),
                              observed=_short(r), expected=_short(fr[hist[-1]]))
    if _dialect.DIALECTS != snap:
        acc.violation('dialect-table-modified', {'kind': 'history', 'history': [first], 'config': config}, 'DIALECTS modified by parsing')
    acc.sample({'history': [POOL[i] for i in (hist or (first,))], 'config': CONFIGS[config]})
    return acc


def _short(r):
    s = json.dumps(r, ensure_ascii=False, default=repr)
    return s[:1500]


# ---------------------------------------------------------------------------
# schedules
# ---------------------------------------------------------------------------
class Gate:
    def __init__(self, n):
        self.sems = [threading.Semaphore(0) for _ in range(n)]
        self.back = threading.Semaphore(0)
        self.done = [False] * n


class GatedScanner(I.StringScanner):
    def __init__(self, text, gate, i):
        super().__init__(text)
        self.g = gate
        self.i = i

    def read(self):
        self.g.back.release()           # at a scheduling point
        self.g.sems[self.i].acquire()   # wait for the baton
        return super().read()


def _worker(i, text, gate, out):
    try:
        ig = IdGenerator()
        d = Parser(AstBuilder(ig)).parse(GatedScanner(text, gate, i))
        d = dict(d)
        d['uri'] = 'u'
        # snapshot at once: a result that another parse keeps writing to must show up as a difference
        out[i] = copy.deepcopy(('ok', d, Compiler(ig).compile(d)))
    except CompositeParserException as e:
        out[i] = ('errs', [I.err_tuple(x) for x in e.errors])
    except BaseException as e:  # noqa: BLE001
        out[i] = ('exc', '%s: %s' % (type(e).__name__, e))
    gate.done[i] = True
    gate.back.release()


def run_schedule(texts, schedule):
    """Returns (results, complete): the schedule names, at every read point, which parse gets the baton."""
    n = len(texts)
    g = Gate(n)
    out = [None] * n
    th = [threading.Thread(target=_worker, args=(i, texts[i], g, out), daemon=True) for i in range(n)]
    for t in th:
        t.start()
    for _ in range(n):
        if not g.back.acquire(timeout=20):
            return out, 'stuck before the first read point'
    for step, i in enumerate(schedule):
        if g.done[i]:
            return out, 'schedule gives the baton to a finished parse at step %d' % step
        g.sems[i].release()
        if not g.back.acquire(timeout=20):
            return out, 'no parse reached a read point or finished after step %d (deadlock)' % step
    for t in th:
        t.join(timeout=20)
    if not all(g.done):
        return out, 'parses still blocked after the whole schedule'
    return out, None


def solo(text):
    out, err = run_schedule([text], [0] * (read_points(text)))
    return out[0]


def read_points(text):
    # one read per physical line + one for EOF; look-ahead re-uses queued tokens, so the number of scanner reads is lines + 1
    return text.count('\n') + (0 if text.endswith('\n') or text == '' else 1) + 1


def interleavings(counts):
    def rec(rem, pre):
        if not any(rem):
            yield list(pre)
            return
        for i, c in enumerate(rem):
            if c:
                rem[i] -= 1
                pre.append(i)
                yield from rec(rem, pre)
                pre.pop()
                rem[i] += 1
    yield from rec(list(counts), [])


SCHED_POOL = [
    "Feature: a\n  Scenario: s\n    Given x\n      \"\"\"\n      d\n",
    "#language: fr\nFonctionnalité: b\n  # c\n  Scénario: t\n    Soit y\n",
    "Feature: c\n  @t\n  # c\n  Scenario: s\n",
    "Feature: d\n  Scenario Outline: o\n  @e\n    Examples:\n      | a |\n",
    "x\n@bad tag\nFeature: e\n  | a |\n",
    "#language: no\nEgenskap: f\n  Scenario: g\n",
    "Feature: h\n  Scenario: s\n    Given x\n      | a |\n      | b | c |\n",
]


def actual_reads(text):
    """Number of read points of a solo parse (aborted parses read fewer lines)."""
    class Counting(I.StringScanner):
        n = 0

        def read(self):
            Counting.n += 1
            return super().read()
    Counting.n = 0
    try:
        Parser().parse(Counting(text))
    except Exception:  # noqa: BLE001
        pass
    return Counting.n


@worker
def job_schedules(idx, maxlines):
    acc = Acc()
    texts = [SCHED_POOL[i] if maxlines is None else ''.join(SCHED_POOL[i].splitlines(True)[:maxlines]) for i in idx]
    solos = [solo_result(t) for t in texts]
    counts = [actual_reads(t) for t in texts]
    sched = None
    for sched in interleavings(counts):
        acc.n += 1
        acc.validated += 1
        acc.nontrivial += 1
        out, err = run_schedule(texts, sched)
        switches = sum(1 for a, b in zip(sched, sched[1:]) if a != b)
        acc.states.add((tuple(idx), switches))
        acc.trans.add((tuple(idx), tuple(sched[:6])))
        acc.outcomes['switches:%d' % min(switches, 12)] += 1
        case = {'kind': 'schedule', 'documents': list(idx), 'maxlines': maxlines, 'schedule': sched}
        if err:
            acc.violation('schedule-stuck', case, err)
            continue
        if out != solos:
            out2, _ = run_schedule(texts, sched)
            if out2 != out:
                raise core.InternalError('schedule %r is not reproducible: the scheduler does not own all nondeterminism' % (sched,))
            bad = [i for i in range(len(texts)) if out[i] != solos[i]]
            acc.violation('interleaving-dependence', case, 'parse(s) %s produce different results when interleaved with the others at line boundaries' % bad,
                          observed=_short(out[bad[0]]), expected=_short(solos[bad[0]]))
    acc.sample({'documents': texts, 'schedule': sched})
    return acc


def solo_result(text):
    out, err = run_schedule([text], [0] * actual_reads(text))
    if err:
        raise core.InternalError('solo run stuck: ' + err)
    return out[0]


def md_lines_digest():
    """Line-level answers of the Markdown matcher for every step keyword of the dialects in which one keyword prefixes another."""
    out = []
    for d in ('fr', 'cs', 'sk', 'ht', 'en-old', 'en'):
        tm = GherkinInMarkdownTokenMatcher(d)
        spec = _dialect.DIALECTS[d]
        for role in ('given', 'when', 'then', 'and', 'but'):
            for k in spec[role]:
                t = Token(GherkinLine('* ' + k + 'x', 1), {'line': 1})
                try:
                    r = tm.match_StepLine(t)
                    out.append((d, k, r, getattr(t, 'matched_keyword', None), getattr(t, 'matched_text', None)))
                except Exception as e:  # noqa: BLE001
                    out.append((d, k, type(e).__name__))
        for role in ('feature', 'rule', 'background', 'scenario', 'scenarioOutline', 'examples'):
            for k in spec[role]:
                t = Token(GherkinLine('## ' + k + ': x', 1), {'line': 1})
                try:
                    r = [getattr(tm, 'match_' + n)(t) for n in ('FeatureLine', 'RuleLine', 'BackgroundLine', 'ScenarioLine', 'ExamplesLine')]
                    out.append((d, k, r, getattr(t, 'matched_keyword', None)))
                except Exception as e:  # noqa: BLE001
                    out.append((d, k, type(e).__name__))
    return out


# ---------------------------------------------------------------------------
# one Compiler used by two compilations at the same time: all interleavings at its id requests
# ---------------------------------------------------------------------------
COMPILE_POOL = [
    "@fa\nFeature: a\n  Scenario: s\n    Given x\n  Scenario: t\n    Given y\n",
    "#language: fr\n@fb\nFonctionnalité: b\n  @r\n  Règle: r\n    Scénario: s\n      Soit y\n",
    "@fc\nFeature: c\n  Background:\n    Given b\n  Scenario Outline: o <a>\n    Given <a>\n    Examples:\n      | a |\n      | 1 |\n",
    "Feature: d\n  Scenario: no steps\n  @x\n  Scenario: e\n    Given z\n",
]


class GatedIds(IdGenerator):
    def __init__(self, gate, start):
        super().__init__()
        for _ in range(start):
            super().get_next_id()
        self.g = gate
        self.local = threading.local()

    def get_next_id(self):
        i = getattr(self.local, 'who', None)
        if i is not None:
            self.g.back.release()
            self.g.sems[i].acquire()
        return super().get_next_id()


def _compile_worker(i, compiler, ids, doc, uri, gate, out):
    ids.local.who = i
    try:
        out[i] = ('ok', _strip_ids(copy.deepcopy(compiler.compile(dict(doc, uri=uri)))))
    except BaseException as e:  # noqa: BLE001
        out[i] = ('exc', '%s: %s' % (type(e).__name__, e))
    gate.done[i] = True
    gate.back.release()


def run_compile_schedule(docs, schedule):
    n = len(docs)
    g = Gate(n)
    ids = GatedIds(g, 1000)
    c = Compiler(ids)
    out = [None] * n
    th = [threading.Thread(target=_compile_worker, args=(i, c, ids, docs[i], 'uri-%d' % i, g, out), daemon=True) for i in range(n)]
    for t in th:
        t.start()
    for _ in range(n):
        if not g.back.acquire(timeout=20):
            return out, 'stuck before the first id request'
    for step, i in enumerate(schedule):
        if g.done[i]:
            return out, 'schedule gives the baton to a finished compile at step %d' % step
        g.sems[i].release()
        if not g.back.acquire(timeout=20):
            return out, 'deadlock after step %d' % step
    for t in th:
        t.join(timeout=20)
    return out, None if all(g.done) else 'compiles still blocked after the whole schedule'


def id_requests(doc, uri):
    class Counting(IdGenerator):
        n = 0

        def get_next_id(self):
            Counting.n += 1
            return super().get_next_id()
    Counting.n = 0
    Compiler(Counting()).compile(dict(doc, uri=uri))
    return Counting.n


@worker
def job_compile_schedules(i, j):
    acc = Acc()
    docs = []
    for k in (i, j):
        a = I.parse(COMPILE_POOL[k])
        docs.append(a[1])
    solos = [('ok', _strip_ids(Compiler(IdGenerator()).compile(dict(d, uri='uri-%d' % n)))) for n, d in enumerate(docs)]
    counts = [id_requests(d, 'uri-%d' % n) for n, d in enumerate(docs)]
    sched = None
    for sched in interleavings(counts):
        acc.n += 1
        acc.validated += 1
        acc.nontrivial += 1
        out, err = run_compile_schedule(docs, sched)
        case = {'kind': 'compile-schedule', 'documents': [i, j], 'schedule': sched}
        acc.states.add(('compile', i, j, sum(1 for a, b in zip(sched, sched[1:]) if a != b)))
        if err:
            acc.violation('schedule-stuck', case, err)
            continue
        if out != solos:
            bad = [k for k in range(2) if out[k] != solos[k]]
            acc.violation('compile-interleaving-dependence', case,
                          'two compilations sharing one Compiler, interleaved at its id requests: result(s) %s differ from compiling alone (ids aside)' % bad,
                          observed=_short(out[bad[0]]), expected=_short(solos[bad[0]]))
    acc.sample({'documents': [COMPILE_POOL[i], COMPILE_POOL[j]], 'schedule': sched})
    return acc


def pool_digest():
    res = [fresh(t, 'en', False, True)[:3] for t in POOL] + [md_lines_digest()]
    return hashlib.sha256(json.dumps(res, sort_keys=False, ensure_ascii=False, default=repr).encode('utf8')).hexdigest()


MD_LINES = ['# Feature: a', '## Scenario: b', 'prose', '* Given x', '  | a |', '`@t`', '# Feature: again', '```', 'inside', '```']


def md_histories(acc):
    """Line-level reuse of the Markdown matcher: after reset() it must answer like a fresh one."""
    names = [n for n in ('FeatureLine', 'ScenarioLine', 'StepLine', 'TableRow', 'TagLine', 'DocStringSeparator', 'Other')]

    def answers(tm, line):
        out = []
        for n in names:
            t = Token(GherkinLine(line, 1), {'line': 1})
            try:
                r = getattr(tm, 'match_' + n)(t)
                out.append((n, r, getattr(t, 'matched_type', None), getattr(t, 'matched_text', None), getattr(t, 'matched_keyword', None)))
            except Exception as e:  # noqa: BLE001
                out.append((n, 'exc', type(e).__name__))
        return out
    for a in MD_LINES:
        for b in MD_LINES:
            for c in MD_LINES:
                used = GherkinInMarkdownTokenMatcher('en')
                answers(used, a)
                answers(used, b)
                used.reset()
                got = answers(used, c)
                fresh_tm = GherkinInMarkdownTokenMatcher('en')
                want = answers(fresh_tm, c)
                acc.n += 1
                acc.validated += 1
                if got != want:
                    acc.violation('markdown-matcher-state', {'kind': 'md-history', 'lines': [a, b, c]},
                                  'Markdown matcher reused after reset() answers differently from a fresh one', observed=got, expected=want)


def run(ctx):
    ctx.alphabet = {'history_pool': [p[:60] for p in POOL], 'perturbations': PERTURBS, 'configurations': CONFIGS, 'schedule_pool': SCHED_POOL}
    ctx.rule = ('histories = all ordered sequences of 2..h pool documents through one parser/matcher/compiler in 5 configurations; schedules = all interleavings of the scanner read points of '
                '2 (3) concurrent parses; all non-trivial (each compares a reused/interleaved result with the fresh/solo result)')
    ctx.assumptions = ['pre-emption only at line boundaries (TokenScanner.read), as the property states; the library has no threads or locks of its own',
                       'the scheduler owns all nondeterminism: a failing schedule must reproduce when replayed']
    h = ctx.pick(3, 4)
    cfgs = range(len(CONFIGS)) if ctx.quick else range(len(CONFIGS))
    # every configuration gets all pairs; the longest histories run in three configurations (all of them in the thorough tier)
    deep = (0, 2, 5) if ctx.quick else tuple(cfgs)
    ctx.level('histories h<=%d' % h, [job_histories.job(i, h if c in deep else h - 1, c) for c in cfgs for i in range(len(POOL))])
    acc = Acc()
    md_histories(acc)
    ctx.acc.merge(acc)
    # determinism across processes with different hash seeds
    here = pool_digest()
    for seed in ('1', '12345'):
        env = dict(os.environ, PYTHONHASHSEED=seed, PYTHONDONTWRITEBYTECODE='1', VERIF_REPO=core.REPO)
        out = subprocess.run([sys.executable, '-c', 'import sys; sys.path.insert(0, %r); from mc.checks import c15; print(c15.pool_digest())' % core.ROOT],
                             env=env, capture_output=True, text=True, timeout=120)
        ctx.acc.n += 1
        if out.returncode != 0 or out.stdout.strip() != here:
            ctx.acc.violation('nondeterministic-across-processes', {'kind': 'hashseed', 'seed': seed},
                              'a second process with PYTHONHASHSEED=%s produces different output for the pool: %s' % (seed, (out.stdout + out.stderr)[-300:]))
    n = len(SCHED_POOL)
    pairs = [(i, j) for i in range(n) for j in range(i, n)]
    ctx.level('schedules: all interleavings of 2 parses (<=5 lines)', [job_schedules.job(p, None) for p in pairs])
    m = len(COMPILE_POOL)
    ctx.level('one Compiler, two compilations: all interleavings at id requests', [job_compile_schedules.job(i, j) for i in range(m) for j in range(i, m)])
    triples = [(i, j, k) for i in range(n) for j in range(i, n) for k in range(j, n)]
    if ctx.quick:
        ctx.level('schedules: all interleavings of 3 parses (<=2 lines)', [job_schedules.job(t, 2) for t in triples])
    else:
        ctx.level('schedules: all interleavings of 3 parses (<=3 lines)', [job_schedules.job(t, 3) for t in triples])


def replay(case):
    acc = Acc()
    if case['kind'] == 'history':
        default, stop, own = CONFIGS[case['config']]
        ig = IdGenerator()
        p, c, m = Parser(AstBuilder(ig)), Compiler(ig), (TokenMatcher(default) if own else None)
        r = None
        kept = []
        for pos, i in enumerate(case['history']):
            r = one(p, c, POOL[i], (None if (own == 'mixed' and pos == len(case['history']) - 1) else m), stop)
            if r[0] == 'errs':
                kept.append((i, r[2], list(r[1])))
            elif r[0] == 'ok':
                kept.append((i, None, r[3]))
        for i, exc, was in kept:
            if exc is not None and [I.err_tuple(x) for x in exc.errors] != was:
                return ['history %s: the error raised for document %d lists other errors after later parses' % (case['history'], i)]
            if exc is None and json.dumps([was[0], was[1]], sort_keys=True, default=repr) != was[2]:
                return ['history %s: the result returned for document %d was modified later' % (case['history'], i)]
        f = fresh(POOL[case['history'][-1]], default, stop, own)
        if r[:2] != f[:2] or r[0] in ('modified', 'exc'):
            return ['history %s: reused instances give %s, fresh instances %s' % (case['history'], _short(r)[:300], _short(f)[:300])]
        return []
    if case['kind'] == 'schedule':
        texts = [SCHED_POOL[i] if case['maxlines'] is None else ''.join(SCHED_POOL[i].splitlines(True)[:case['maxlines']]) for i in case['documents']]
        out, err = run_schedule(texts, case['schedule'])
        if err:
            return [err]
        solos = [solo_result(t) for t in texts]
        if out != solos:
            return ['interleaved results differ from solo results under schedule %s' % case['schedule']]
        return []
    if case['kind'] == 'compile-schedule':
        a = job_compile_schedules(*case['documents'])
        return [v[0]['message'] for v in a.viol.values()]
    if case['kind'] == 'md-history':
        md_histories(acc)
    return [v[0]['message'] for v in acc.viol.values()]
