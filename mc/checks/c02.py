"""C02 - accepted language and rule nesting are exactly those of gherkin.berp; same table as siblings.

A  exact decision on the automaton: product of the grammar's subset automaton (E1) with the
   transition function extracted from the running parser (E2 dynamic), all lengths;
   the same product carrying the stack of open rules decides "every event stream is a derivation".
B  conformance of that extracted model to the code: every kind sequence of length <= L through the
   real Parser.parse (E3), plus a reachable-state BFS over canonical parser states with bounded queue.
C  the text of parser.py says what the running parser does, and the five sibling parsers have
   the same table (bisimulation from the initial states).
"""
from __future__ import annotations

import itertools

from .. import core
from ..core import Acc, worker
from ..berp import Spec, KINDS, ALL
from .. import tables as TB
from .. import kinds as K

MAX_DEPTH = 9          # the grammar is not recursive: GherkinDocument>Feature>Rule>ScenarioDefinition>Scenario>ExamplesDefinition>Examples>ExamplesTable
SPEC = None
T = None
USES_LA = None


def setup():
    global SPEC, T, USES_LA, INFO
    if SPEC is None:
        SPEC = Spec()
        T, INFO = TB.dynamic_table()
        USES_LA = set(map(tuple, INFO['uses_lookahead']))
    return SPEC, T, INFO


def first_class(tokens, i):
    for k in tokens[i:]:
        if k not in TB.SKIP:
            return TB.la_class(k)
    return 'N'


def predict(kinds):
    """What the extracted model M_impl says a full parse of `kinds` does (fewer than 11 errors)."""
    toks = list(kinds) + ['EOF']
    state = 0
    ev = [('s', 'GherkinDocument')]
    errs = []
    for i, k in enumerate(toks):
        c = first_class(toks, i + 1) if (state, k) in USES_LA else 'N'
        if state is None:
            break
        to, events, errors = T[(state, k, c)]
        for e in events:
            ev.append(('b', e[1], i + 1, k) if e[0] == 'b' else e)
        for (typ, text) in errors:
            errs.append((i + 1, typ, text))
        state = to
    ev.append(('e', 'GherkinDocument'))
    return state, ev, errs


def check_run(kinds, acc, S_before_eof=None, dead_at=None, trace_states=True):
    """Run one kind sequence through the real parser and compare with spec and model."""
    trace = [] if trace_states else None
    r = K.run(kinds, trace=trace)
    acc.n += 1
    acc.validated += 1
    case = {'kind': 'kinds', 'kinds': list(kinds)}
    if r.get('crash'):
        acc.violation('parse-loop-crash', case, 'Parser.parse raised ' + r['crash'])
        return
    spec_ok = SPEC.accepts(kinds)
    if spec_ok:
        acc.nontrivial += 1
    acc.outcomes['accepted' if r['ok'] else 'rejected:%d' % len(r['errors'])] += 1
    if trace:
        for (s, k, to, ql, ne) in trace:
            acc.states.add((to, min(ql, 4), min(ne, 2)))
            acc.trans.add((s, k, to))
    if r['ok'] != spec_ok:
        acc.violation('language', case, 'parser %s a kind sequence the grammar %s'
                      % ('accepts' if r['ok'] else 'rejects', 'accepts' if spec_ok else 'rejects'),
                      observed=r['errors'], expected=spec_ok)
        return
    st, ev, errs = predict(kinds)
    if not r['ok']:
        # first error must sit where the grammar first cannot continue
        S = SPEC.initial
        first = None
        for i, k in enumerate(list(kinds) + ['EOF']):
            S = SPEC.step(S, k)
            if S is None:
                first = i + 1
                break
        got = min(e[0] for e in r['errors'])
        if got != first:
            acc.violation('first-error-line', case, 'first error reported at line %s, grammar first stuck at line %s' % (got, first),
                          observed=r['errors'], expected=first)
            return
        if r['errors'] != errs:
            acc.violation('errors-vs-model', case, 'error list differs from the transition table prediction', observed=r['errors'], expected=errs)
            return
    if r['ok']:
        full = list(r['ev'])
        if full != ev:
            acc.violation('events-vs-model', case, 'builder events differ from the transition table prediction', observed=full, expected=ev)
            return
        msg = SPEC.check_derivation(full)
        if msg:
            acc.violation('derivation', case, 'accepted run is not a derivation: ' + msg, observed=full)
            return
    else:
        # rejected: events up to the end must still follow the table (prefix semantics: every build predicted)
        if list(r['ev']) != ev:
            acc.violation('events-vs-model', case, 'builder events of a rejected run differ from the table prediction', observed=r['ev'], expected=ev)
            return


@worker
def job_words(prefix, maxlen):
    """All words prefix.w with |prefix.w| <= maxlen (prefix itself included)."""
    setup()
    acc = Acc()
    prefix = list(prefix)

    def rec(word):
        check_run(word, acc)
        if len(word) < maxlen:
            for k in KINDS:
                word.append(k)
                rec(word)
                word.pop()
    rec(prefix)
    if acc.n and len(acc.samples) < 2:
        acc.sample({'kinds': prefix})
    return acc


def exact_product(acc):
    """A1 + A2.  Product state: (spec subset state, impl state, pending look-ahead obligations, rule stack)."""
    spec = SPEC
    g0 = spec.rule_aut['GherkinDocument']
    init_stack = (('GherkinDocument', g0[1]),)
    init = (spec.initial, 0, frozenset(), init_stack)
    seen = {init: ()}
    order = [init]
    trans = 0
    i = 0
    while i < len(order):
        node = order[i]
        i += 1
        S, s, pend, stack = node
        for k in ALL:
            if k in TB.SKIP:
                pend2 = pend
            else:
                if any(o != TB.la_class(k) for o in pend):
                    continue          # the annotation was not the true class: not a real word
                pend2 = frozenset()
            classes = 'SEN' if (k == 'TagLine' and (s, k) in USES_LA) else 'N'
            for c in classes:
                to, events, errors = T[(s, k, c)]
                if to is None:
                    continue          # the transition crashes: reported by the table extraction
                S2 = spec.step(S, k)
                trans += 1
                word = seen[node] + ((k, c),)
                case = {'kind': 'product-path', 'path': [list(x) for x in word]}
                if (S2 is None) != bool(errors):
                    # only a real disagreement if the annotated word can be completed consistently
                    acc.violation('language-exact', case,
                                  'in impl state %d on %s (look-ahead class %s): grammar %s, parser %s'
                                  % (s, k, c, 'rejects' if S2 is None else 'continues', 'reports ' + str(errors) if errors else 'continues'))
                    continue
                if errors:
                    if to != s:
                        acc.violation('error-recovery-state', case, 'after an error in state %d the parser moves to %d' % (s, to))
                    continue
                # derivation stack
                st = list(stack)
                bad = None
                for e in events:
                    if e[0] == 's':
                        if e[1] not in spec.rule_aut:
                            bad = 'start of unknown rule ' + e[1]
                            break
                        st.append((e[1], spec.rule_aut[e[1]][1]))
                        if len(st) > MAX_DEPTH:
                            bad = 'rules nested %d deep (%s): deeper than the grammar allows' % (len(st), [x[0] for x in st])
                            break
                    elif e[0] == 'e':
                        if not st or st[-1][0] != e[1]:
                            bad = 'end_rule(%s) but innermost open rule is %s' % (e[1], st[-1][0] if st else None)
                            break
                        r, R = st.pop()
                        if spec.rule_aut[r][2] not in R:
                            bad = 'end_rule(%s) before its right-hand side is complete' % r
                            break
                        if not st:
                            bad = 'end_rule(%s) closes the root' % r
                            break
                        pr, PR = st[-1]
                        nxt = spec.rule_aut[pr][0].move(PR, '@' + r)
                        if not nxt:
                            bad = '%s cannot contain %s here' % (pr, r)
                            break
                        st[-1] = (pr, nxt)
                    else:
                        kind = e[1]
                        if kind == 'EOF':
                            continue
                        pr, PR = st[-1]
                        nxt = spec.rule_aut[pr][0].move(PR, kind)
                        if not nxt:
                            if kind in spec.ignored:
                                continue
                            bad = '%s cannot contain a %s line here' % (pr, kind)
                            break
                        st[-1] = (pr, (nxt | PR) if kind in spec.ignored else nxt)
                if bad:
                    acc.violation('derivation-exact', case, 'events of transition %d --%s/%s--> %d are not a derivation step: %s' % (s, k, c, to, bad),
                                  observed=list(events))
                    continue
                if k == 'EOF':
                    if pend2 and any(o != 'N' for o in pend2):
                        continue
                    if to != TB.FINAL:
                        acc.violation('eof-state', case, 'EOF accepted in state %d leads to %d, not the final state' % (s, to))
                    if len(st) != 1 or st[0][0] != 'GherkinDocument' or spec.rule_aut['GherkinDocument'][2] not in st[0][1]:
                        acc.violation('derivation-exact', case, 'rules still open / root incomplete at end of file: %s' % [x[0] for x in st])
                    continue
                p3 = pend2 | ({c} if (k == 'TagLine' and (s, k) in USES_LA) else frozenset())
                nxt = (S2, to, p3, tuple(st))
                if nxt not in seen:
                    seen[nxt] = word
                    order.append(nxt)
    acc.states |= {('product', i) for i in range(len(seen))}
    acc.counters['product_states'] = len(seen)
    acc.counters['product_transitions'] = trans
    acc.trans |= {('product-edge', i) for i in range(trans)}
    return len(seen), trans


def interpret_static(tab, s, k, c):
    """Outcome of static table `tab` in state s on kind k with look-ahead class c (generic look-ahead)."""
    st = tab['states'][s]
    for alt in st['alts']:
        tok = alt['tok']
        if tok == 'EOF':
            ok = k == 'EOF'
        elif k == 'EOF':
            ok = False
        elif tok == 'Other':
            ok = True
        elif tok == 'Comment':
            ok = k in ('Comment', 'Language')
        else:
            ok = tok == k
        if not ok:
            continue
        if alt['la'] is not None:
            target = tab['lookaheads'][alt['la']][0]
            if TB.la_class(target) != c:
                continue
        ev = tuple(('b', tok) if p[0] == 'build' else (p[0][0], p[1]) for p in alt['prods'])
        return (alt['to'], ev, ())
    exp = ', '.join(st['expected'])
    if k == 'EOF':
        err = ('UnexpectedEOFException', 'unexpected end of file, expected: ' + exp)
    else:
        err = ('UnexpectedTokenException', "expected: %s, got '%s'" % (exp, k))
    return (st['err_ret'], (), (err,))


def _shape_ok(tab):
    """Did the line-regex extraction find the generated shape (42 states, every alternative with a target, expected lists)?"""
    st = tab['states']
    return (len(st) == 42 and sum(len(x['alts']) for x in st.values()) == 334 and
            all(a['to'] is not None for x in st.values() for a in x['alts']) and
            all(x['expected'] and x['err_ret'] is not None for x in st.values()) and len(tab['lookaheads']) == 2 and
            all(len(v) >= 4 for v in tab['lookaheads'].values()))


def _same_events(got, want):
    """events of the running parser vs events read from a sibling's text (JavaScript's endRule carries no rule name)."""
    return len(got) == len(want) and all(g[0] == w[0] and (g[1] == w[1] or w[1] is None) for g, w in zip(got, want))


def siblings(acc):
    tabs = {l: TB.static_table(l) for l in TB.FILES}
    py = tabs['python']
    n_alt = {l: sum(len(s['alts']) for s in t['states'].values()) for l, t in tabs.items()}
    acc.counters['programs'] = len(tabs)
    py_text_ok = _shape_ok(py)
    acc.counters['python_text_in_generated_shape'] = int(py_text_ok)
    # 1. every sibling against the BEHAVIOUR of the running Python parser (the extracted table), bisimulation from (0, 0)
    for l, t in tabs.items():
        if l == 'python':
            continue
        case0 = {'kind': 'sibling', 'lang': l}
        if not _shape_ok({'states': t['states'], 'lookaheads': t['lookaheads']}) and l not in ('c',):
            # C prints its expected list in another form; the others must be in the generated shape or our reader is wrong
            if len(t['states']) != 42 or n_alt[l] != 334:
                raise core.InternalError('cannot read the generated parser of %s (%d states, %d alternatives)' % (l, len(t['states']), n_alt[l]))
        pair = {0: 0}
        todo = [0]
        visited = 0
        while todo:
            a = todo.pop()
            b = pair[a]
            visited += 1
            if a == TB.FINAL or b == TB.FINAL:
                if a != b:
                    acc.violation('sibling-table', dict(case0, python_state=a, sibling_state=b), 'final state reached on one side only')
                continue
            for k in ALL:
                classes = 'SEN' if (a, k) in USES_LA else 'N'
                for c in classes:
                    acc.n += 1
                    case = {'kind': 'sibling', 'lang': l, 'python_state': a, 'sibling_state': b, 'on': k, 'class': c}
                    try:
                        w = interpret_static(t, b, k, c)
                    except Exception as e:  # noqa: BLE001
                        raise core.InternalError('cannot interpret the %s table in state %d: %s' % (l, b, e))
                    v = T[(a, k, c)]
                    if v[0] is None:
                        continue
                    if bool(v[2]) != bool(w[2]):
                        acc.violation('sibling-table', case, 'Python %s, %s %s' % ('reports an error' if v[2] else 'continues', l, 'reports an error' if w[2] else 'continues'),
                                      observed=v, expected=w)
                        continue
                    if v[2]:
                        if t['states'][b]['expected'] and v[2] != w[2]:
                            acc.violation('sibling-expected', case, 'expected-token list / message differs from %s' % l, observed=v[2], expected=w[2])
                        if pair.get(v[0], w[0]) != w[0]:
                            acc.violation('sibling-table', case, 'error recovery target differs')
                        continue
                    if not _same_events(v[1], w[1]):
                        acc.violation('sibling-table', case, 'productions differ from %s' % l, observed=v[1], expected=w[1])
                        continue
                    if v[0] in pair:
                        if pair[v[0]] != w[0]:
                            acc.violation('sibling-table', case, 'targets not bisimilar', observed=v[0], expected=w[0])
                    else:
                        pair[v[0]] = w[0]
                        todo.append(v[0])
        acc.counters['bisim_states_' + l] = visited
        if visited < 42:
            acc.violation('sibling-table', case0, 'only %d states reachable in the product with %s' % (visited, l))
    # 2. the TEXT of parser.py (when it still has the generated shape) says what the running parser does, and equals the siblings' text
    if py_text_ok:
        for (s, k, c), v in sorted(T.items()):
            if v[0] is None:
                continue
            w = interpret_static(py, s, k, c)
            acc.n += 1
            if w != v:
                acc.violation('static-vs-dynamic', {'kind': 'table-entry', 'state': s, 'on': k, 'class': c},
                              'text of parser.py and running parser disagree', observed=v, expected=w)
        for l, t in tabs.items():
            if l == 'python':
                continue
            if t['lookaheads'] != py['lookaheads']:
                acc.violation('sibling-lookahead', {'kind': 'sibling', 'lang': l}, 'look-ahead definitions differ', observed=py['lookaheads'], expected=t['lookaheads'])
            for st_no in sorted(py['states']):
                sa, sb = py['states'][st_no], t['states'].get(st_no)
                if sb is None:
                    continue
                xs = [(x['tok'], x['la'], x['to']) for x in sa['alts']]
                ys = [(y['tok'], y['la'], y['to']) for y in sb['alts']]
                acc.n += 1
                if xs != ys:
                    acc.violation('sibling-text', {'kind': 'sibling', 'lang': l, 'python_state': st_no}, 'ordered alternatives differ in the text', observed=xs, expected=ys)
    return n_alt


class _NeedMore(Exception):
    pass


class _Stop(Exception):
    pass


class _OracleScanner:
    """Serves a fixed word; raises _NeedMore when the parser reads beyond it (unless the word ended with EOF)."""

    def __init__(self, word):
        self.word = word
        self.i = 0

    def read(self):
        from gherkin.token import Token
        self.i += 1
        if self.i <= len(self.word):
            k = self.word[self.i - 1]
            if k == 'EOF':
                return Token('', {'line': self.i})
            return Token(K.StubLine(k, self.i), {'line': self.i})
        if self.word and self.word[-1] == 'EOF':
            return Token('', {'line': self.i})
        raise _NeedMore()


def _observe(word, n):
    """Replay `word` on a fresh parser and stop after the n-th consumed token.
    Returns ('need',) if the scanner ran dry first, else ('snap', snapshot, delta) where
    snapshot = (state, queued kinds, errors>0, open rules) and delta = (consumed kind, events, errors) of step n."""
    from gherkin.parser import Parser
    from gherkin.errors import ParserError
    b = K.RecBuilder()
    p = Parser(b)
    m = K.StubMatcher()
    sc = _OracleScanner(word)
    count = [0]
    out = []
    orig = p.match_token

    def mt(state, token, context):
        ev0 = len(b.ev)
        er0 = len(context.errors)
        new = orig(state, token, context)
        count[0] += 1
        if count[0] == n:
            stack = []
            for e in b.ev:
                if e[0] == 's':
                    stack.append(e[1])
                elif e[0] == 'e':
                    stack.pop()
            q = tuple('EOF' if t.eof() else t.line.kind for t in context.token_queue)
            ql = tuple(t.location['line'] for t in context.token_queue)
            out.append(((new, q, min(len(context.errors), 1), tuple(stack)),
                        (state, 'EOF' if token.eof() else token.line.kind, token.location['line'], tuple(e[:2] for e in b.ev[ev0:]),
                         tuple(K.err_sig(x)[1:] for x in context.errors[er0:]), sc.i, ql)))
            raise _Stop()
        return new
    p.match_token = mt
    try:
        p.parse(sc, m)
    except _NeedMore:
        return ('need',)
    except _Stop:
        return ('snap',) + out[0]
    except ParserError:
        pass
    except Exception:  # noqa: BLE001 - a crashing transition is reported by the table extraction
        pass
    return ('over',)


def state_bfs(acc, qmax, max_nodes=200000):
    """Explicit-state search over the real Parser.parse loop.  A node is a canonical snapshot; it is expanded by
    replaying its witness on a fresh parser and letting the scanner's answers (the next line kinds) range over all
    14 symbols, read by read, until the next token has been consumed."""
    init = (0, (), 0, ('GherkinDocument',))
    seen = {init: ((), 0)}          # node -> (witness word, tokens consumed)
    second = {}
    order = [init]
    futures = {}
    capped = [0]

    def expand(node, w, n, record):
        edges = set()
        conts = [()]
        while conts:
            c = conts.pop()
            r = _observe(w + c, n + 1)
            acc.n += 1
            if r[0] == 'need':
                if len(node[1]) + len(c) > qmax + 1:
                    capped[0] += 1
                    continue
                for k in ALL:
                    conts.append(c + (k,))
                continue
            if r[0] == 'over':
                continue
            snap, (s0, k, line, ev, errs, reads, qlines) = r[1], r[2]
            acc.validated += 1
            word = w + c
            rest = list(node[1][1:] if node[1] else ()) + list(c[1:] if not node[1] else c)
            cls = first_class(rest + ['EOF'], 0) if (s0, k) in USES_LA else 'N'
            to, pev, perr = T[(s0, k, cls)]
            case = {'kind': 'kinds', 'kinds': [x for x in word if x != 'EOF'], 'step': n + 1}
            if (snap[0], ev, errs) != (to, pev, perr):
                acc.violation('bfs-step-vs-table', case, 'step %d (state %d on %s, class %s) differs from the table' % (n + 1, s0, k, cls),
                              observed=(snap[0], ev, errs), expected=(to, pev, perr))
            if line != n + 1:
                acc.violation('bfs-token-order', case, 'token consumed at step %d carries line %d' % (n + 1, line))
            if list(qlines) != list(range(n + 2, n + 2 + len(qlines))) or n + 1 + len(qlines) != reads:
                acc.violation('bfs-queue', case, 'after step %d queue holds lines %s, scanner has served %d lines' % (n + 1, list(qlines), reads))
            edges.add((k, c, snap))
            if not record:
                continue
            if len(snap[3]) > MAX_DEPTH:
                acc.violation('bfs-nesting-depth', case, 'open rules nested deeper than the grammar allows: %s' % (snap[3],))
                continue
            acc.trans.add((node[0], node[1], k, snap[0], snap[1]))
            if k == 'EOF':
                continue
            if len(snap[1]) > qmax + 1:
                capped[0] += 1
                continue
            if snap not in seen:
                seen[snap] = (word, n + 1)
                order.append(snap)
            elif snap not in second and seen[snap] != (word, n + 1):
                second[snap] = (word, n + 1)
        return frozenset(edges)

    i = 0
    while i < len(order) and len(order) < max_nodes:
        node = order[i]
        i += 1
        futures[node] = expand(node, *seen[node], record=True)
    complete = i >= len(order)
    # soundness of the canonical form: two different witnesses of one node must have the same one-step futures
    checked = 0
    for node, (w, n) in second.items():
        if node not in futures:
            continue
        fut = expand(node, w, n, record=False)
        checked += 1
        if fut != futures[node]:
            raise core.InternalError('canonical state %r is not a sound abstraction: witnesses %r and %r have different futures'
                                     % (node, seen[node], second[node]))
    acc.states |= set(seen)
    acc.counters['bfs_nodes'] = len(seen)
    acc.counters['bfs_nodes_with_second_witness_checked'] = checked
    acc.counters['bfs_queue_bound_hits'] = capped[0]
    acc.counters['bfs_complete'] = int(complete)
    return len(seen), complete


def check_text(text, acc, default='en'):
    """Text level (real matcher): a document is rejected *for a grammar reason* exactly when the gherkin.berp automaton, fed the own
    kinds of its lines, cannot continue - and then the first such error is at the line where the automaton is stuck."""
    from .. import impl as I
    from .. import docmodel as M
    case = {'kind': 'text', 'text': text}
    acc.n += 1
    acc.validated += 1
    ok, stuck, read = M.grammar_reading(text, default)
    a = I.parse(text, default=default, acc=acc)
    if a[0] == 'exc':
        acc.violation('foreign-exception', case, 'parser raised ' + a[1])
        return
    grammar_errors = [] if a[0] == 'ok' else [e for e in a[1] if e[3] in ('UnexpectedTokenException', 'UnexpectedEOFException')]
    other_errors = [] if a[0] == 'ok' else [e for e in a[1] if e[3] not in ('UnexpectedTokenException', 'UnexpectedEOFException')]
    acc.outcomes['grammar accepts' if ok else 'grammar rejects'] += 1
    if ok:
        acc.nontrivial += 1
        if grammar_errors and not other_errors:
            acc.violation('language-text', case, 'the line kinds %s are a sentence of the grammar, but the parser reports %s' % (read, grammar_errors[0][2]))
    else:
        if a[0] == 'ok':
            acc.violation('language-text', case, 'the grammar cannot continue at line %d, but the parser accepts the document' % stuck)
        elif grammar_errors and not other_errors and min(e[0] for e in grammar_errors) != stuck:
            acc.violation('first-error-line-text', case, 'the grammar is first stuck at line %d, the parser first reports line %d' % (stuck, min(e[0] for e in grammar_errors)))


def _first(kws):
    return next(k for k in kws if k.strip() != '*')


@worker
def job_dialect_keywords(names):
    """Every keyword of every role of the dialect, one at a time in a document that uses every construct: the line kinds handed to the
    builder must be the grammar's reading of the reference lexer's kinds, and the nesting must put each construct where the grammar does."""
    from .. import impl as I
    from .. import docmodel as M
    from .. import ref as R
    acc = Acc()
    text = None
    for d in names:
        D = R.DIALECTS[d]
        base = {r: _first(D[r]) for r in ('feature', 'background', 'rule', 'scenario', 'scenarioOutline', 'examples', 'given', 'when', 'then')}
        for role in base:
            for kw in D[role]:
                k = dict(base)
                k[role] = kw
                for tagged in (False, True):
                    tg = '  @t\n' if tagged else ''
                    text = ('# language: %s\n%s: f\n  %s:\n    %sx\n%s  %s: r\n%s    %s: s\n      %sy\n%s    %s: o\n      %sz\n%s      %s:\n        | a |\n'
                            % (d, k['feature'], k['background'], k['given'], tg, k['rule'], tg, k['scenario'], k['when'], tg, k['scenarioOutline'], k['then'], tg, k['examples']))
                    case = {'kind': 'dialect-keyword', 'text': text, 'dialect': d, 'role': role, 'keyword': kw}
                    acc.n += 1
                    acc.validated += 1
                    ok, stuck, read = M.grammar_reading(text)
                    if not ok:
                        raise core.InternalError('sweep design: the grammar does not accept %r (stuck at %s)' % (text, stuck))
                    want = [h for h in read] + ['EOF']
                    t = I.tokens(text)
                    if t[0] != 'ok':
                        acc.violation('language-text', case, 'a sentence of the grammar written with the %s keyword %r of dialect %s is rejected: %r' % (role, kw, d, t[1][:1]))
                        continue
                    acc.nontrivial += 1
                    got = [x.matched_type for x in t[2]]
                    if got != want:
                        i = next((i for i, (x, y) in enumerate(zip(got, want)) if x != y), min(len(got), len(want)))
                        acc.violation('token-kinds-text', case, 'line %d reaches the builder as %s, the grammar reads it as %s' % (i + 1, got[i:i + 1], want[i:i + 1]))
                        continue
                    a = I.parse(text)
                    if a[0] != 'ok':
                        acc.violation('language-text', case, 'accepted with the token formatter but rejected with the AST builder: %r' % (a[1][:1],))
                        continue
                    f = a[1].get('feature') or {}
                    ch = f.get('children', [])
                    shape = [list(c)[0] for c in ch]
                    inner = [list(c)[0] + ':' + str(len(list(c.values())[0].get('examples', []))) + ':' + str(len(list(c.values())[0].get('tags', [])))
                             for c in (ch[1]['rule']['children'] if len(ch) > 1 and 'rule' in ch[1] else [])]
                    n = 1 if tagged else 0
                    exp_inner = ['scenario:0:%d' % n, 'scenario:1:%d' % n]
                    rtags = len(ch[1]['rule'].get('tags', [])) if len(ch) > 1 and 'rule' in ch[1] else None
                    extags = [len(e.get('tags', [])) for c in (ch[1]['rule']['children'][1:] if len(inner) > 1 else []) for e in c['scenario'].get('examples', [])]
                    acc.states.add((role, tuple(shape), tuple(inner)))
                    acc.trans.add((d, role))
                    if shape != ['background', 'rule'] or inner != exp_inner or rtags != n or extags != [n]:
                        acc.violation('nesting-text', case, 'nesting is not Feature(Background, Rule(Scenario, Scenario Outline(Examples))) with each tag line on what follows it',
                                      observed=[shape, inner, rtags, extags], expected=[['background', 'rule'], exp_inner, n, [n]])
    acc.sample({'text': text})
    return acc


def run(ctx):
    setup()
    acc = ctx.acc
    ctx.rule = ('kind sequences over the 13 line kinds (EOF appended), all words of length <= L through the real Parser.parse; '
                'non-trivial = sequences the grammar accepts (they exercise nesting); product automaton explored to fixpoint')
    ctx.alphabet = KINDS
    ctx.assumptions = ['the stub matcher answers by line kind (Language is also a Comment, everything is Other); lexing is covered by C05/C12/C13/C18',
                       'static extraction of sibling tables is by line regex over generated code of a fixed shape; it must yield 42 states / 334 alternatives or the check stops']
    if INFO['problems']:
        for p in INFO['problems'][:5]:
            if p[0] == 'crash':
                acc.violation('transition-crash', {'kind': 'table-extraction', 'state': p[1], 'on': p[2]},
                              'Parser.match_token(state %s, %s) raised %s' % (p[1], p[2], p[5]))
                continue
            acc.violation('lookahead-contract', {'kind': 'table-extraction', 'detail': repr(p)},
                          'Parser.match_token: look-ahead does not re-queue exactly what it read / outcome depends on more than the class of the first non-skipped line')
    reach, strans = SPEC.reachable()
    ctx.notes['spec_states'] = len(reach)
    ctx.notes['spec_transitions'] = strans
    ctx.notes['table_entries'] = len(T)
    ctx.notes['table_extraction_calls'] = INFO['calls']
    ctx.notes['lookahead_dependent_pairs'] = len(USES_LA)
    acc.n += INFO['calls']
    # choice-driven paths: every alternative executed
    paths = 0
    alts_seen = set()
    for s in [x for x in range(43) if x != TB.FINAL]:
        for eof in (False, True):
            for script, r in TB.choice_paths(s, eof):
                paths += 1
                asked = tuple(a for a, tag, ans in r['log'] if tag == 'cur')
                if any(ans for a, tag, ans in r['log'] if tag == 'cur'):
                    alts_seen.add((s, asked))
                # the look-ahead must leave the queue = tokens read, in order
                la_tags = []
                for a, tag, ans in r['log']:
                    if tag != 'cur' and tag not in la_tags:
                        la_tags.append(tag)
                if r['q'] and sorted(r['q']) != sorted(set(r['q'])):
                    acc.violation('lookahead-contract', {'kind': 'choice-path', 'state': s, 'script': script}, 'queue has duplicates', observed=r['q'])
                if r['q'] != sorted(r['q'], key=lambda t: int(t[1:])):
                    acc.violation('lookahead-contract', {'kind': 'choice-path', 'state': s, 'script': script}, 'queue out of order', observed=r['q'])
    ctx.notes['choice_paths'] = paths
    acc.n += paths
    n_alt = siblings(acc)
    ctx.notes['alternatives_per_program'] = n_alt
    ctx.notes['programs'] = len(n_alt)
    if len(set(n_alt.values())) != 1 or n_alt['python'] != 334:
        acc.counters['alternatives_mismatch'] = 1
    ps, pt = exact_product(acc)
    ctx.levels.append({'name': 'exact-product', 'completed': True, 'evaluations': pt, 'wall_s': 0})
    acc.sample({'kinds': ['FeatureLine', 'ScenarioLine', 'StepLine', 'TagLine', 'Comment', 'ExamplesLine', 'TableRow']})
    import time as _t
    t0 = _t.time()
    Q = ctx.pick(2, 3)
    nb, complete = state_bfs(acc, Q)
    ctx.levels.append({'name': 'state-bfs(queue<=%d)' % (Q + 1), 'completed': bool(complete), 'evaluations': acc.counters['bfs_nodes'], 'wall_s': round(_t.time() - t0, 2)})
    from .. import docspace as DS
    k_full, k_core = ctx.pick((2, 2), (3, 3))
    DS.run_levels(ctx, __name__, k_full, k_core)
    from .. import ref as R
    names = sorted(R.DIALECTS)
    ctx.level('every keyword of every dialect in a full document', [job_dialect_keywords.job(names[i:i + 3]) for i in range(0, len(names), 3)])
    L = 5
    Lmax = ctx.pick(5, 7)
    # iterate the bound: all words <= L first (sharded by 2-prefix), then exactly the next length
    jobs = [job_words.job((), 1)] + [job_words.job((a,), 1) for a in KINDS] + [job_words.job((a, b), L) for a in KINDS for b in KINDS]
    ctx.level('L<=%d' % L, jobs)
    for L2 in range(L + 1, Lmax + 1):
        if ctx.out_of_time():
            ctx.levels.append({'name': 'L=%d' % L2, 'completed': False, 'evaluations': 0, 'skipped': True})
            break
        jobs = [job_exact.job((a, b, c), L2) for a in KINDS for b in KINDS for c in KINDS]
        ctx.level('L=%d' % L2, jobs)


@worker
def job_exact(prefix, length):
    """All words of exactly `length` starting with prefix."""
    setup()
    acc = Acc()
    n = length - len(prefix)
    for suf in itertools.product(KINDS, repeat=n):
        check_run(list(prefix) + list(suf), acc, trace_states=False)
    acc.sample({'kinds': list(prefix) + list(suf)})
    return acc


def replay(case):
    setup()
    acc = Acc()
    if case.get('kind') == 'text':
        check_text(case['text'], acc)
    elif case.get('kind') == 'kinds':
        check_run(case['kinds'], acc)
    else:
        # table-level findings are re-derived by re-running the static / exact parts
        siblings(acc)
        exact_product(acc)
        if INFO['problems']:
            acc.violation('lookahead-contract', case, repr(INFO['problems'][:3]))
    return [v[0]['message'] for v in acc.viol.values()]
