"""C19 - the Markdown matcher recognises Gherkin lines as MARKDOWN_WITH_GHERKIN.md specifies (line level).

Complete sweep: 80 dialects x every title keyword of every role x header depth 1..7 (7 must fail) x indentation
{0,1,3} x separator {space, tab, none (must fail)} x title {"", "x", " a b "}; every step keyword x bullet
{*, +, -, none (must fail), other character (must fail)} x spacing {0,1,2}; table rows at indentation 0..8 with space
and tab, cells from {a, -, :-, -:, :-:, --, ''} (all-delimiter rows must not match, rows without delimiter cells
must match iff indented 2..5; for rows mixing delimiter and ordinary cells only position-independence of the verdict is required, since both the 'any cell' and the 'every cell' reading of 'separator row' satisfy the statement); tag lines with 0..3 back-quoted tags, words
between them, indentation {0,2}.  Oracle: hand-written reference (no regular expressions) for return value,
matched_type, matched_keyword, trimmed matched_text and location.column."""
from __future__ import annotations

import itertools

from ..core import Acc, worker
from .. import ref as R

from gherkin.token_matcher_markdown import GherkinInMarkdownTokenMatcher
from gherkin.token import Token
from gherkin.gherkin_line import GherkinLine

D = R.DIALECTS
TITLE = {'FeatureLine': ['feature'], 'RuleLine': ['rule'], 'BackgroundLine': ['background'],
         'ScenarioLine': ['scenario', 'scenarioOutline'], 'ExamplesLine': ['examples']}
STEP = ['given', 'when', 'then', 'and', 'but']


def tok(line):
    return Token(GherkinLine(line, 1), {'line': 1})


def call(tm, name, line, acc, case):
    t = tok(line)
    try:
        r = getattr(tm, 'match_' + name)(t)
        acc.outcomes['%s:%s' % (name, 'recognised' if r else 'not recognised')] += 1
        return r, t
    except Exception as e:  # noqa: BLE001
        acc.violation('matcher-exception', case, 'match_%s raised %s: %s' % (name, type(e).__name__, e))
        return None, t


def ref_title(d, roles, line):
    t = line.lstrip()
    ind = len(line) - len(t)
    n = 0
    while n < len(t) and t[n] == '#':
        n += 1
    if not (1 <= n <= 6) or n >= len(t) or not t[n].isspace():
        return None
    rest = t[n + 1:]
    for r in roles:
        for k in D[d][r]:
            if rest.startswith(k + ':'):
                return (k, rest[len(k) + 1:].split('\n')[0].strip(), ind + n + 2)
    return None


def ref_step(d, line):
    t = line.lstrip()
    ind = len(line) - len(t)
    if not t or t[0] not in '*+-':
        return None
    i = 1
    while i < len(t) and t[i].isspace():
        i += 1
    rest = t[i:]
    for r in STEP:
        for k in D[d][r]:
            if rest.startswith(k):
                return (k, rest[len(k):].split('\n')[0].strip(), ind + i + 1)
    return None


@worker
def job_dialects(names):
    acc = Acc()
    line = None
    for d in names:
        tm = GherkinInMarkdownTokenMatcher(d)
        for mt, roles in TITLE.items():
            for r in roles:
                for k in D[d][r]:
                    for depth in range(1, 8):
                        for ind in ('', ' ', '   '):
                            for sep in (' ', '\t', ''):
                                for title in ('', 'x', ' a b ', 'x\n', ' t \r\n'):
                                    line = ind + '#' * depth + sep + k + ':' + title
                                    case = {'kind': 'md-line', 'dialect': d, 'entry': mt, 'line': line}
                                    acc.n += 1
                                    acc.validated += 1
                                    got, t = call(tm, mt, line, acc, case)
                                    exp = ref_title(d, roles, line)
                                    should = depth <= 6 and sep != ''
                                    if (exp is not None) != should:
                                        raise AssertionError('reference disagrees with the sweep design: %r' % line)
                                    acc.states.add((mt, depth, bool(got)))
                                    acc.trans.add((mt, depth, sep, bool(got)))
                                    if got is None:
                                        continue
                                    if bool(got) != should:
                                        acc.violation('title-recognition', case, 'match_%s returned %r, expected %r' % (mt, got, should))
                                    elif got:
                                        acc.nontrivial += 1
                                        g = (t.matched_type, t.matched_keyword, t.matched_text, t.location.get('column'))
                                        e = (mt, exp[0], exp[1], exp[2])
                                        if g != e:
                                            acc.violation('title-fields', case, 'token fields differ', observed=g, expected=e)
                    # no header prefix: not recognised
                    for line in (k + ': x', '  ' + k + ': x', '* ' + k + ': x', '####### ' + k + ': x'):
                        case = {'kind': 'md-line', 'dialect': d, 'entry': mt, 'line': line}
                        acc.n += 1
                        got, t = call(tm, mt, line, acc, case)
                        if got:
                            acc.violation('title-recognition', case, 'line without a header prefix recognised by match_' + mt)
        for r in STEP:
            for k in D[d][r]:
                for b in ('*', '+', '-', '', '•', '#', '1.', 'note -', '> *', '1. +', 'so-'):
                    for sp in ('', ' ', '  '):
                        for ind, eol in (('', ''), ('  ', ''), ('', '\n'), (' ', '\r\n')):
                            line = ind + b + sp + k + 'text here ' + eol
                            if b == '' and (sp + k).lstrip()[:1] in ('*', '+', '-'):
                                continue      # the keyword itself ('* ') would serve as the bullet: unspecified
                            case = {'kind': 'md-line', 'dialect': d, 'entry': 'StepLine', 'line': line}
                            acc.n += 1
                            acc.validated += 1
                            got, t = call(tm, 'StepLine', line, acc, case)
                            exp = ref_step(d, line)
                            should = b in ('*', '+', '-')
                            if k.startswith('*') and should:
                                # '* ' as keyword after a bullet: "* * x" - the reference decides
                                should = exp is not None
                            acc.states.add(('StepLine', b, bool(got)))
                            acc.trans.add(('StepLine', b, sp, bool(got)))
                            if got is None:
                                continue
                            if bool(got) != should or (exp is not None) != should:
                                acc.violation('step-recognition', case, 'match_StepLine returned %r, expected %r' % (got, should))
                            elif got:
                                acc.nontrivial += 1
                                g = (t.matched_type, t.matched_keyword, t.matched_text, t.location.get('column'))
                                e = ('StepLine', exp[0], exp[1], exp[2])
                                if g != e:
                                    acc.violation('step-fields', case, 'token fields differ', observed=g, expected=e)
    acc.sample({'dialect': names[-1], 'line': line})
    return acc


MD_EDIT_CHARS = [' ', '#', '*', '-', ':', 'x', '\t', '`']


def md_edits(line):
    seen = {line}
    for i in range(len(line) + 1):
        cands = [line[:i] + c + line[i:] for c in MD_EDIT_CHARS]
        if i < len(line):
            cands.append(line[:i] + line[i + 1:])
        for t in cands:
            if t not in seen:
                seen.add(t)
                yield t


@worker
def job_md_edits(names):
    """Every title keyword as '## k: n' and every step keyword as '* kn', and every single edit of that line, against its entry point."""
    acc = Acc()
    line = None
    for d in names:
        tm = GherkinInMarkdownTokenMatcher(d)
        for mt, roles in TITLE.items():
            for r in roles:
                for k in D[d][r]:
                    for line in md_edits(' ## ' + k + ': n'):
                        case = {'kind': 'md-line', 'dialect': d, 'entry': mt, 'line': line}
                        acc.n += 1
                        acc.validated += 1
                        got, t = call(tm, mt, line, acc, case)
                        if got is None:
                            continue
                        exp = ref_title(d, roles, line)
                        if bool(got) != (exp is not None):
                            acc.violation('title-recognition', case, 'match_%s returned %r, expected %r' % (mt, got, exp is not None))
                        elif got:
                            acc.nontrivial += 1
                            g = (t.matched_type, t.matched_keyword, t.matched_text, t.location.get('column'))
                            if g != (mt,) + exp:
                                acc.violation('title-fields', case, 'token fields differ', observed=g, expected=(mt,) + exp)
        for r in STEP:
            for k in D[d][r]:
                if k.startswith('*'):
                    continue
                for line in md_edits(' * ' + k + 'n'):
                    if line.lstrip()[:1] not in ('*', '+', '-') and (line.lstrip() + ' ')[0] in '*+-':
                        continue
                    case = {'kind': 'md-line', 'dialect': d, 'entry': 'StepLine', 'line': line}
                    acc.n += 1
                    acc.validated += 1
                    got, t = call(tm, 'StepLine', line, acc, case)
                    if got is None:
                        continue
                    exp = ref_step(d, line)
                    if bool(got) != (exp is not None):
                        acc.violation('step-recognition', case, 'match_StepLine returned %r, expected %r' % (got, exp is not None))
                    elif got:
                        acc.nontrivial += 1
                        g = (t.matched_type, t.matched_keyword, t.matched_text, t.location.get('column'))
                        if g != ('StepLine',) + exp:
                            acc.violation('step-fields', case, 'token fields differ', observed=g, expected=('StepLine',) + exp)
    acc.sample({'dialect': names[-1], 'line': line})
    return acc


CELLS = ['a', '-', ':-', '-:', ':-:', '--', '']
SEPS = {'-', ':-', '-:', ':-:', '--'}


@worker
def job_tables(ncells):
    acc = Acc()
    tm = GherkinInMarkdownTokenMatcher('en')
    line = None
    mixed = {}
    for cells in itertools.product(CELLS, repeat=ncells):
        nsep = sum(1 for c in cells if c in SEPS)
        if 0 < nsep < len(cells) and ncells:
            # a row with delimiter cells *and* ordinary cells: "GFM separator row" can be read as "some cell is a delimiter" (what the
            # JavaScript matcher does) or "every cell is" (GFM) - either way the verdict cannot depend on *where* the delimiter cell stands
            line = '   |' + ''.join(' ' + c + ' |' for c in cells)
            got, t = call(tm, 'TableRow', line, acc, {'kind': 'md-line', 'dialect': 'en', 'entry': 'TableRow', 'line': line})
            acc.n += 1
            acc.validated += 1
            if got is not None:
                mixed.setdefault(bool(got), line)
                if len(mixed) == 2:
                    acc.violation('table-recognition', {'kind': 'md-mixed-rows', 'lines': [mixed[True], mixed[False]]},
                                  'rows that mix delimiter and ordinary cells: %r is recognised as a table row, %r is not - under neither reading of "separator row" does the position of the delimiter cell matter'
                                  % (mixed[True], mixed[False]))
            acc.counters['mixed_rows'] += 1
            continue
        for ws in (' ', '\t'):
            for n in range(0, 9):
                for pad in (' ', ''):
                    if pad == '' and '' in cells:
                        continue
                    eol = '\n' if (n + len(cells)) % 2 else ''          # lines reach the matcher with and without their terminator
                    line = ws * n + '|' + ''.join(pad + c + pad + '|' for c in cells) + eol
                    case = {'kind': 'md-line', 'dialect': 'en', 'entry': 'TableRow', 'line': line}
                    acc.n += 1
                    acc.validated += 1
                    got, t = call(tm, 'TableRow', line, acc, case)
                    should = (2 <= n <= 5) and nsep == 0
                    acc.states.add(('TableRow', n, bool(got)))
                    acc.trans.add(('TableRow', n, ws, nsep == 0, bool(got)))
                    if got is None:
                        continue
                    if bool(got) != should:
                        acc.violation('table-recognition', case, 'match_TableRow returned %r for a row indented %d with %d separator cells' % (got, n, nsep))
                    elif got:
                        acc.nontrivial += 1
                        tr = line.lstrip()
                        exp = R.split_cells(tr, len(line) - len(tr))
                        g = [(i['column'], i['text']) for i in t.matched_items]
                        if t.matched_type != 'TableRow' or g != exp or t.location.get('column') != n + 1:
                            acc.violation('table-fields', case, 'table row token fields differ', observed=(t.matched_type, g, t.location), expected=exp)
    acc.sample({'line': line})
    return acc


WORDS = ['', 'and ', 'text @not `code` ', '`x` ', '`@` ', '`` @ ']


@worker
def job_tags(ntags):
    acc = Acc()
    tm = GherkinInMarkdownTokenMatcher('en')
    names = ['@a', '@tag-2', '@ü\U0001F600']
    line = None
    for tags in itertools.product(names, repeat=ntags):
        for words in itertools.product(WORDS, repeat=ntags + 1):
            for ind in ('', '  '):
                line = ind
                exp = []
                for i, tg in enumerate(tags):
                    line += words[i]
                    exp.append((len(line) + 2, tg))
                    line += '`' + tg + '`' + (' ' if i + 1 < len(tags) else '')
                line += words[-1]
                case = {'kind': 'md-line', 'dialect': 'en', 'entry': 'TagLine', 'line': line}
                acc.n += 1
                acc.validated += 1
                got, t = call(tm, 'TagLine', line, acc, case)
                acc.states.add(('TagLine', ntags, bool(got)))
                acc.trans.add(('TagLine', ntags, ind, bool(got)))
                if got is None:
                    continue
                if bool(got) != (ntags > 0):
                    acc.violation('tag-recognition', case, 'match_TagLine returned %r for a line with %d back-quoted tags' % (got, ntags))
                elif got:
                    acc.nontrivial += 1
                    g = [(i['column'], i['text']) for i in t.matched_items]
                    if g != exp or t.matched_type != 'TagLine':
                        acc.violation('tag-fields', case, 'tags / columns differ', observed=g, expected=exp)
    acc.sample({'line': line})
    return acc


def run(ctx):
    names = sorted(D)
    ctx.rule = ('complete sweep dialect x keyword x role x header depth / bullet x indentation x separator x title; table rows x indentation 0..8 x cell menus; tag lines; '
                'non-trivial = lines that must be (and are) recognised, whose token fields are compared')
    ctx.alphabet = {'dialects': len(names), 'header_depths': list(range(1, 8)), 'bullets': ['*', '+', '-', '', '•', '#', '1.', 'note -', '> *', '1. +', 'so-'], 'cells': CELLS, 'tag_names': ['@a', '@tag-2', '@ü😀']}
    ctx.assumptions = ['line-level matching only (end-to-end Markdown parsing is documented as JavaScript-only); match_Comment / match_Empty of the Markdown matcher are outside the property']
    ctx.level('dialects x keywords x layouts', [job_dialects.job(names[i:i + 3]) for i in range(0, len(names), 3)])
    ctx.level('single edits of every keyword line', [job_md_edits.job(names[i:i + 3]) for i in range(0, len(names), 3)])
    ctx.level('table rows', [job_tables.job(n) for n in (0, 1, 2, 3)] + ([job_tables.job(4)] if not ctx.quick else []))
    ctx.level('tag lines', [job_tags.job(n) for n in (0, 1, 2, 3)])


def replay(case):
    acc = Acc()
    tm = GherkinInMarkdownTokenMatcher(case.get('dialect', 'en'))
    if 'line' not in case:
        verdicts = [bool(call(tm, 'TableRow', l, acc, case)[0]) for l in case['lines']]
        return ['rows that mix delimiter and ordinary cells get different verdicts: %r' % (list(zip(case['lines'], verdicts)),)] if len(set(verdicts)) > 1 else []
    got, t = call(tm, case['entry'], case['line'], acc, case)
    if case['entry'] in TITLE:
        exp = ref_title(case['dialect'], TITLE[case['entry']], case['line'])
        if bool(got) != (exp is not None) or (got and (t.matched_keyword, t.matched_text, t.location.get('column')) != exp):
            return ['match_%s on %r: got %r %r, expected %r' % (case['entry'], case['line'], got, (t.matched_keyword, t.matched_text, t.location), exp)]
    elif case['entry'] == 'StepLine':
        exp = ref_step(case['dialect'], case['line'])
        if bool(got) != (exp is not None) or (got and (t.matched_keyword, t.matched_text, t.location.get('column')) != exp):
            return ['match_StepLine on %r: got %r, expected %r' % (case['line'], got, exp)]
    if case.get('kind') == 'md-mixed-rows':
        verdicts = [bool(call(tm, 'TableRow', l, acc, case)[0]) for l in case['lines']]
        if len(set(verdicts)) > 1:
            return ['rows that mix delimiter and ordinary cells get different verdicts: %r' % (list(zip(case['lines'], verdicts)),)]
    return [v[0]['message'] for v in acc.viol.values()]
