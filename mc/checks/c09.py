"""C09 - example values replace <header> placeholders literally, everywhere they apply.

All header names over an adversarial alphabet (regular-expression metacharacters, backslash, '$', '<', '>', inner blank)
up to a length bound x all values over {a, 1, \\, $, &, g, <, >, ., blank} up to length 2 x templates built from the
header, substituted into scenario name, step text, table cell, doc string content and media type; two-column
families (order of application, value containing the next placeholder, duplicate headers); background steps must stay.
Driven through Compiler.compile on AST dictionaries and, for parser-representable cells, through the parser.
Oracle: for h, v in zip(headers, values): s = s.replace('<' + h + '>', v)."""
from __future__ import annotations

import itertools

from ..core import Acc, worker
from .. import docmodel as M
from .. import impl as I
from .. import pick as P

HDR = ['a', 'b', '1', '.', '(', ')', '[', '\\', '$', '*', '+', '?', '^', '{', '|', '<', '>', ' ', '\n']
VAL = ['a', '1', '\\', '$', '&', 'g', '<', '>', '.', ' ']


def templates(h):
    return ['<%s>' % h, 'x<%s>y<%s>' % (h, h), '<' + h, h + '>', '<<%s>>' % h, '<x> <%s x>' % h, 'a.b (c) [d] $1 \\1 \\g<0> ' + h]


TARGETS = ('name', 'text', 'cell', 'content', 'media')


def outline_ast(headers, rows, tpl, bg_text, only=None):
    """only: None = the template in every target; else the template in that single target and plain text elsewhere."""
    ast = _outline_ast(headers, rows, tpl, bg_text)
    if only is not None:
        sc = ast['feature']['children'][1]['scenario']
        plain = 'plain'
        if only != 'name':
            sc['name'] = plain
        if only != 'text':
            sc['steps'][0]['text'] = plain
        if only != 'cell':
            sc['steps'][0]['dataTable']['rows'][0]['cells'][0]['value'] = plain
        if only != 'content':
            sc['steps'][1]['docString']['content'] = plain
        if only != 'media':
            sc['steps'][1]['docString']['mediaType'] = plain
    return ast


def _outline_ast(headers, rows, tpl, bg_text):
    def cell(v, n):
        return {'location': {'line': n, 'column': 1}, 'value': v}
    steps = [
        {'id': '2', 'location': {'line': 5, 'column': 1}, 'keyword': 'Given ', 'keywordType': 'Context', 'text': tpl,
         'dataTable': {'location': {'line': 6, 'column': 1}, 'rows': [{'id': '1', 'location': {'line': 6, 'column': 1}, 'cells': [cell(tpl, 6), cell('k', 6)]}]}},
        {'id': '3', 'location': {'line': 7, 'column': 1}, 'keyword': 'When ', 'keywordType': 'Action', 'text': 'w',
         'docString': {'location': {'line': 8, 'column': 1}, 'content': tpl + '\n' + tpl, 'delimiter': '"""', 'mediaType': tpl}},
    ]
    nid = 4
    hdr = {'id': str(nid), 'location': {'line': 12, 'column': 1}, 'cells': [cell(h, 12) for h in headers]}
    body = []
    for r in rows:
        nid += 1
        body.append({'id': str(nid), 'location': {'line': 13, 'column': 1}, 'cells': [cell(v, 13) for v in r]})
    ex = {'id': str(nid + 1), 'tags': [], 'location': {'line': 11, 'column': 1}, 'keyword': 'Examples', 'name': '', 'description': '',
          'tableHeader': hdr, 'tableBody': body}
    sc = {'id': str(nid + 2), 'tags': [], 'location': {'line': 4, 'column': 1}, 'keyword': 'Scenario Outline', 'name': tpl, 'description': '',
          'steps': steps, 'examples': [ex]}
    bg = {'id': '0b', 'location': {'line': 2, 'column': 1}, 'keyword': 'Background', 'name': '', 'description': '',
          'steps': [{'id': '0', 'location': {'line': 3, 'column': 1}, 'keyword': 'Given ', 'keywordType': 'Context', 'text': bg_text,
                     'docString': {'location': {'line': 3, 'column': 1}, 'content': bg_text, 'delimiter': '"""', 'mediaType': bg_text}}]}
    bg['id'] = str(nid + 3)
    return {'feature': {'tags': [], 'location': {'line': 1, 'column': 1}, 'language': 'en', 'keyword': 'Feature', 'name': 'f', 'description': '',
                        'children': [{'background': bg}, {'scenario': sc}]}, 'comments': []}


def outline_ast_late(headers, rows, tpl, where):
    """Placeholders only late in the outline: plain name, first a step with a doc string without media type, then a step with a plain
    table, then the step that carries the template (in its text / cell / doc string)."""
    ast = _outline_ast(headers, rows, 'plain', 'bg')
    sc = ast['feature']['children'][1]['scenario']
    s0, s1 = sc['steps']
    s0['text'] = 'plain'
    s0['dataTable']['rows'][0]['cells'][0]['value'] = 'plain'
    s1['docString'] = {'location': {'line': 8, 'column': 1}, 'content': 'plain', 'delimiter': '"""'}
    last = {'id': '3x', 'location': {'line': 9, 'column': 1}, 'keyword': 'Then ', 'keywordType': 'Outcome', 'text': tpl if where == 'text' else 'plain'}
    if where == 'cell':
        last['dataTable'] = {'location': {'line': 10, 'column': 1}, 'rows': [{'id': '3y', 'location': {'line': 10, 'column': 1}, 'cells': [{'location': {'line': 10, 'column': 1}, 'value': tpl}]}]}
    elif where == 'content':
        last['docString'] = {'location': {'line': 10, 'column': 1}, 'content': tpl, 'delimiter': '```'}
    # ids: give the extra nodes numbers after all others
    n = P.max_id(ast) + 1
    if 'dataTable' in last:
        last['dataTable']['rows'][0]['id'] = str(n)
        n += 1
    last['id'] = str(n)
    sc['steps'] = [s1, s0, last]
    return ast


def subst(s, headers, values):
    for h, v in zip(headers, values):
        s = s.replace('<' + h + '>', v)
    return s


def check_ast(ast, acc, case):
    """Generic: every outline pickle must be the literal substitution of its row into name, texts and arguments."""
    acc.n += 1
    acc.validated += 1
    got, exp, before, after = P.compile_both(ast)
    if got[0] != 'ok':
        acc.violation('compile-exception', case, 'Compiler.compile raised ' + got[1])
        return
    e = P.p_c09(exp)
    for route, res in P.routes(ast, got):
        if res[0] != 'ok':
            acc.violation('compile-exception', case, 'Compiler.compile (%s) raised %s' % (route, res[1]))
            return False
        g = P.p_c09(res[1])
        if g != e:
            i = next((i for i, (x, y) in enumerate(zip(g, e)) if x != y), min(len(g), len(e)))
            field = 'name' if g[i:i + 1] and e[i:i + 1] and g[i]['name'] != e[i]['name'] else 'steps'
            acc.violation('substitution-' + field, case, '%s: pickle %d: %s differ from literal placeholder substitution' % (route, i, field),
                          observed=g[i:i + 1], expected=e[i:i + 1])
            return False
    return True


def run_case(headers, rows, tpl, acc, single_targets=False):
    bg_text = 'bg ' + tpl
    ast = outline_ast(headers, rows, tpl, bg_text)
    case = {'kind': 'ast', 'ast': ast, 'headers': headers, 'rows': rows, 'template': tpl}
    ok = check_ast(ast, acc, case)
    if single_targets:
        for only in TARGETS:
            a2 = outline_ast(headers, rows, tpl, 'bg', only=only)
            check_ast(a2, acc, {'kind': 'ast', 'ast': a2, 'headers': headers, 'rows': rows, 'template': tpl, 'only': only})
        for where in ('text', 'cell', 'content'):
            a3 = outline_ast_late(headers, rows, tpl, where)
            check_ast(a3, acc, {'kind': 'ast', 'ast': a3, 'headers': headers, 'rows': rows, 'template': tpl, 'late': where})
    want = subst(tpl, headers, rows[0])
    if want != tpl:
        acc.nontrivial += 1
    acc.outcomes['replaced' if want != tpl else 'unchanged'] += 1
    acc.states.add((tpl.count('<'), want != tpl))
    acc.trans.add((len(headers), tpl.count('<'), want != tpl, any(c in '\\$.([*+?^{|' for h in headers for c in h)))
    return ok


@worker
def job_single(first, hlen, vlen):
    acc = Acc()
    last = None
    vals = [''.join(v) for n in range(vlen + 1) for v in itertools.product(VAL, repeat=n)]
    heads = [HDR[first] + ''.join(hw) for n in range(hlen) for hw in itertools.product(HDR, repeat=n)]
    if first == 0:
        heads.insert(0, '')           # the empty header cell: placeholder '<>'
    for h in heads:
        for ti, tpl in enumerate(templates(h) + ['x <%s> y' % h, '<%s>' % h * 3]):
            for v in vals:
                run_case([h], [[v]], tpl, acc, single_targets=(ti == 0 and len(v) <= 1))
        last = h
    acc.sample({'headers': [last], 'rows': [[vals[-1]]], 'template': templates(last)[1]})
    return acc


@worker
def job_double(first):
    acc = Acc()
    h1 = HDR[first]
    for h2 in HDR:
        for v1 in ['<%s>' % h2, 'a', '\\', '<' + h2, '']:
            for v2 in ['', 'a', '$', '\\1', '<%s>' % h1, '&']:
                for tpl in ['<%s><%s>' % (h1, h2), '<%s><%s>' % (h2, h1), 'x<%s>' % h1, '<%s<%s>>' % (h1, h2), '<%s>' % (h1 + h2), '<%s>' % h1, '<%s>' % h2]:
                    run_case([h1, h2], [[v1, v2], [v2, v1]], tpl, acc)
        # a later header that encloses an earlier placeholder, and three columns chained through their values
        for v1, v2 in (('q', 'w'), ('<%s>' % h2, 'w'), ('', '<%s>' % h1)):
            for tpl in ('<<%s>>' % h1, '<%s>' % h1, '<<<%s>>>' % h1):
                run_case([h1, '<%s>' % h1], [[v1, v2], [v2, v1]], tpl, acc)
                run_case(['<%s>' % h1, h1], [[v1, v2], [v2, v1]], tpl, acc)
        run_case([h1, h2, 'z'], [['<%s>' % h2, '<z>', 'end'], ['<z>', '<%s>' % h1, '<%s>' % h2]], '<%s>' % h1, acc)
    acc.sample({'headers': [h1, HDR[-1]], 'rows': [['<%s>' % HDR[-1], '&']], 'template': '<%s><%s>' % (h1, HDR[-1])})
    return acc


def representable(s):
    return s == s.strip() and s != '' and '\n' not in s


@worker
def job_parser(first, hlen):
    """Headers / values that a table cell can represent, through the real parser."""
    acc = Acc()
    text = None
    vals = [v for v in ['a', '1', '\\', '$&', '\\g<1>', '<b>', '.', 'a b', '\\\\', '$'] if representable(v)]
    for n in range(hlen):
        for hw in itertools.product(HDR, repeat=n):
            h = HDR[first] + ''.join(hw)
            if not representable(h):
                continue
            for v in vals:
                tpl = 'x<%s>y<%s>' % (h, h)
                model = M.feature('f', [M.background('', [M.step(tpl)]),
                                        M.scenario(tpl, [M.step(tpl, arg=M.table([[tpl]])), M.step('w', role='when', arg=M.doc([tpl], media=tpl if '`' not in tpl else ''))],
                                                   [M.examples('', [[h, 'b'], [v, 'zz']])], outline=True)])
                text, exp, r = M.render(model)
                a = I.parse(text)
                if a[0] != 'ok':
                    acc.counters['parser_route_rejected'] += 1
                    continue
                hdr = [c['value'] for c in a[1]['feature']['children'][1]['scenario']['examples'][0]['tableHeader']['cells']]
                if hdr[0] != h:
                    acc.counters['header_not_representable'] += 1
                    continue
                check_ast(a[1], acc, {'kind': 'ast', 'ast': a[1], 'text': text, 'route': 'parser'})
                acc.nontrivial += 1
    acc.sample({'text': text})
    return acc


def run(ctx):
    ctx.alphabet = {'header_characters': HDR, 'value_characters': VAL, 'templates': templates('H')}
    ctx.rule = ('header names over the alphabet up to the length bound x values up to length 2 x templates; each compile substitutes into name, step text, cell, doc string content and media type; '
                'non-trivial = cases where at least one placeholder is replaced')
    ctx.assumptions = ['characters outside the alphabets are represented by their class (letter / digit / regex metacharacter / angle bracket / blank)']
    hlen, vlen = ctx.pick((2, 2), (3, 2))
    ctx.level('single column: headers<=%d values<=%d' % (hlen, vlen), [job_single.job(i, hlen, vlen) for i in range(len(HDR))])
    ctx.level('two columns', [job_double.job(i) for i in range(len(HDR))])
    ctx.level('through the parser: headers<=%d' % hlen, [job_parser.job(i, hlen) for i in range(len(HDR))])
    from .. import astgen as A
    from .. import gen as G
    ctx.level('pairs of feature modules', [A.job_shapes.job(__name__, 'pairs', s, 16, ctx.quick) for s in range(16)])
    ctx.level('one construct repeated 1..12 times', [A.job_shapes.job(__name__, 'repetition', s, 16, ctx.quick) for s in range(16)])
    ctx.level('deviation documents k<=1 via parser', [A.job_deviations.job(__name__, b, 1, 0, 1) for b in range(len(G.base_documents()))])
    from .. import docspace as DS
    mc = ctx.pick(250, 1500)
    ctx.level('single edits of corpus and base documents <= %d characters via parser' % mc, [A.job_edits.job(__name__, mc, bi) for bi in range(len(DS.edit_bases(mc)))])


def replay(case):
    acc = Acc()
    check_ast(case['ast'], acc, case)
    return [v[0]['message'] + ' observed=%r expected=%r' % (v[0].get('observed'), v[0].get('expected')) for v in acc.viol.values()]
