"""C18 - the builder sees each source line exactly once, in order, then one EOF.

Kind level (real Parser.parse, stub lexer, recording builder): every kind sequence of length <= L, and from each
state with a look-ahead alternative all words  TagLine r1 t1 r2 t2  (r = runs over {TagLine, Comment, Empty}) so
that look-ahead is nested and repeated while the queue is non-empty.
Text level: the documents of the "lines from every control state" space and look-ahead arrangements rendered as
real lines through the library's TokenFormatterBuilder, compared line by line with the reference lexer's listing;
and the token listings of the shared acceptance corpus.
"""
from __future__ import annotations

import json

import itertools
import os

from .. import core
from ..core import Acc, worker
from ..berp import KINDS, ALL
from .. import kinds as K
from .. import tables as TB
from .. import ref as R
from .. import impl as I
from .. import docspace as DS



def delivery_oracle(n, built, unexpected, n_errors, accepted, case, acc, capped=False, last_error_line=None):
    """built: list of (line, is_eof) in delivery order; unexpected: list of line numbers reported as unexpected
    (line n+1 = end of file).  n = number of physical lines."""
    lines = [b[0] for b in built]
    if not accepted:
        beyond = [l for l in unexpected if not (isinstance(l, int) and 1 <= l <= n + 1)]
        if beyond:
            acc.violation('report-outside-document', case, 'lines %s of a %d-line document reported as unexpected' % (beyond, n))
            return
        if unexpected.count(n + 1) > 1:
            acc.violation('delivery-eof', case, 'end of file reported %d times' % unexpected.count(n + 1))
            return
        if capped and last_error_line is not None:
            late = [l for l in lines if l > last_error_line]
            if late:
                acc.violation('delivery-after-limit', case, 'the eleventh error (line %d) stops the parse, but lines %s were still delivered to the builder' % (last_error_line, late))
                return
    if accepted:
        if lines != list(range(1, n + 2)) or [b[1] for b in built] != [False] * n + [True]:
            acc.violation('delivery-accepted', case, 'accepted %d-line document: builder received lines %s (EOF flags %s)' % (n, lines, [b[1] for b in built][-3:]))
        return
    if lines != sorted(lines) or len(set(lines)) != len(lines):
        acc.violation('delivery-order', case, 'builder received lines out of order or twice: %s' % lines)
        return
    if capped:
        # the parse stopped at the eleventh error: everything before the last reported line must be accounted for
        upto = max(unexpected) if unexpected else 0
        want = set(range(1, upto + 1))
        got = set(l for l in lines if l <= upto) | set(unexpected)
        both = set(lines) & set(unexpected)
        if got != want or both:
            acc.violation('delivery-rejected', case, 'before the error limit: lines %s neither delivered nor reported; both: %s'
                          % (sorted(want - got), sorted(both)))
        return
    both = set(lines) & set(unexpected)
    missing = set(range(1, n + 2)) - set(lines) - set(unexpected)
    extra = (set(lines) | set(unexpected)) - set(range(1, n + 2))
    if both or missing or extra:
        acc.violation('delivery-rejected', case, 'rejected %d-line document: lines %s neither delivered nor reported, %s both, %s beyond the end'
                      % (n, sorted(missing), sorted(both), sorted(extra)))
    if built and built[-1][1] and [b for b in built if b[1]] != [built[-1]]:
        acc.violation('delivery-eof', case, 'more than one EOF token delivered')


def check_kinds(kinds, acc, trace=False, strict_reads=False):
    tr = [] if trace else None
    r = K.run(kinds, trace=tr)
    acc.n += 1
    acc.validated += 1
    n = len(kinds)
    case = {'kind': 'kinds', 'kinds': list(kinds)}
    built = [(e[2], e[3] == 'EOF') for e in r['ev'] if e[0] == 'b']
    for e in r['ev']:
        if e[0] == 'b':
            own = 'EOF' if e[2] == n + 1 else (kinds[e[2] - 1] if 1 <= e[2] <= n else None)
            if own != e[3]:
                acc.violation('delivery-identity', case, 'token delivered for line %d is not that line (%s vs %s)' % (e[2], e[3], own))
    unexpected = [e[0] for e in r['errors'] if e[1] in ('UnexpectedTokenException', 'UnexpectedEOFException')]
    if tr:
        for (s, k, to, ql, ne) in tr:
            acc.states.add((to, min(ql, 5), min(ne, 3)))
            acc.trans.add((s, k, to, min(ql, 5)))
    if r['ok'] or any(k in ('TagLine',) for k in kinds):
        acc.nontrivial += 1
    acc.outcomes['accepted' if r['ok'] else 'rejected'] += 1
    if r['reads'] != n + 1 and len(r['errors']) < 11:
        acc.violation('scanner-reads', case, 'scanner was read %d times for %d lines' % (r['reads'], n))
    capped = len(r['errors']) >= 11
    last = max((e[0] for e in r['errors'] if isinstance(e[0], int)), default=None)
    if strict_reads and capped and last is not None and r['reads'] > last + 3:
        acc.violation('reads-after-limit', case, 'the eleventh error is at line %d, but the scanner was read %d times' % (last, r['reads']))
    delivery_oracle(n, built, unexpected, len(r['errors']), r['ok'], case, acc, capped=capped, last_error_line=last)


@worker
def job_words(prefix, maxlen):
    acc = Acc()
    prefix = list(prefix)

    def rec(word):
        check_kinds(word, acc, trace=len(word) <= 4)
        if len(word) < maxlen:
            for k in KINDS:
                word.append(k)
                rec(word)
                word.pop()
    rec(prefix)
    acc.sample({'kinds': prefix})
    return acc


RUNS = ('TagLine', 'Comment', 'Empty')


def _table():
    """Transition function extracted from the RUNNING parser (never from the text of parser.py, which may be restructured)."""
    from .c02 import setup
    spec, T, info = setup()
    return T, set(map(tuple, info['uses_lookahead']))


def la_states():
    T, uses = _table()
    return sorted({s for (s, k) in uses})


_WITNESS = None


def kind_witness():
    """Shortest kind path to every state, by BFS over the extracted transition function."""
    global _WITNESS
    if _WITNESS is not None:
        return _WITNESS
    T, uses = _table()
    seen = {0: ()}
    order = [0]
    i = 0
    while i < len(order):
        s = order[i]
        i += 1
        for k in KINDS:
            for c in ('N', 'S', 'E'):
                v = T.get((s, k, c))
                if not v or v[0] is None or v[2] or v[0] in seen:
                    continue
                if c != 'N' and (s, k) not in uses:
                    continue
                # a look-ahead class other than N needs a matching continuation: the witness is only used as a prefix, followed by
                # every continuation, so record the plain kind path
                seen[v[0]] = seen[s] + (k,)
                order.append(v[0])
    _WITNESS = seen
    return seen


def la_words(r1max, r2max):
    for n1 in range(r1max + 1):
        for r1 in itertools.product(RUNS, repeat=n1):
            for t1 in ALL:
                if t1 == 'EOF':
                    yield ('TagLine',) + r1
                    continue
                for n2 in range(r2max + 1):
                    for r2 in itertools.product(RUNS, repeat=n2):
                        for t2 in ALL:
                            yield ('TagLine',) + r1 + (t1,) + r2 + (() if t2 == 'EOF' else (t2,))


@worker
def job_la(state, r1max, r2max, text_level):
    acc = Acc()
    wit = kind_witness()[state]
    w = None
    for w in la_words(r1max, r2max):
        word = wit + w
        check_kinds(word, acc, trace=True)
        if text_level:
            check_text(''.join(DS.CANON[k] for k in word), acc)
    acc.sample({'kinds': list(wit + w)})
    return acc


def token_fields(t):
    """What a listing row shows, read from the token's public fields."""
    if t.eof():
        return 'EOF'
    return (t.location.get('line'), t.location.get('column'), getattr(t, 'matched_type', None), getattr(t, 'matched_keyword', None) or None,
            getattr(t, 'matched_keyword_type', None) or None, getattr(t, 'matched_text', None) or '',
            [(i['column'], i['text']) for i in (getattr(t, 'matched_items', None) or [])])


def ref_fields(t):
    if t.eof:
        return 'EOF'
    return (t.line_no, t.column, t.kind, t.keyword or None, t.ktype or None, t.text or '', list(t.items))


def check_text(text, acc, default='en'):
    case = {'kind': 'text', 'text': text}
    acc.n += 1
    a = I.tokens(text, default)
    r = R.reference(text, 'u', default=default, compile_=False)
    acc.validated += 1
    if a[0] == 'exc':
        acc.violation('foreign-exception', case, 'token listing raised ' + a[1])
        return
    toks = a[2]
    n = text.count('\n') + (0 if text.endswith('\n') or text == '' else 1)
    built = [(t.location.get('line'), t.eof()) for t in toks]
    acc.outcomes['accepted' if a[0] == 'ok' else 'rejected'] += 1
    if a[0] == 'ok':
        acc.nontrivial += 1
        unexpected = []
        nerr = 0
    else:
        errs = a[1]
        nerr = len(errs)
        unexpected = [e[0] for e in errs if e[3] in ('UnexpectedTokenException', 'UnexpectedEOFException')]
    last = max((e[0] for e in a[1] if isinstance(e[0], int)), default=None) if a[0] != 'ok' else None
    delivery_oracle(n, built, unexpected, nerr, a[0] == 'ok', case, acc, capped=nerr >= 11, last_error_line=last)
    if (a[0] == 'ok') != (r.status == 'ok') or nerr >= 11 or r.capped:
        return
    # the tokens the builder received are the reference lexer's tokens, field by field ...
    got = [token_fields(t) for t in toks]
    exp = [ref_fields(t) for t in r.tokens]
    if got != exp:
        i = next((i for i, (x, y) in enumerate(zip(got, exp)) if x != y), min(len(got), len(exp)))
        acc.violation('listing-vs-reference', case, 'token %d delivered to the builder differs from the reference lexer' % i,
                      observed=got[i:i + 1], expected=exp[i:i + 1])
        return
    # ... and the listing printed for an accepted document shows exactly them
    if a[0] == 'ok' and a[1] != R.format_tokens(r.tokens):
        gl, el = str(a[1]).split('\n'), R.format_tokens(r.tokens).split('\n')
        i = next((i for i, (x, y) in enumerate(zip(gl, el)) if x != y), min(len(gl), len(el)))
        acc.violation('listing-format', case, 'the printed token listing differs from the tokens at row %d' % i, observed=gl[i:i + 1], expected=el[i:i + 1])


@worker
def job_corpus(path):
    acc = Acc()
    text = R.read_source(path)
    a = I.tokens(text)
    acc.n += 1
    acc.validated += 1
    exp = open(path + '.tokens', encoding='utf8').read()
    if a[0] != 'ok' or a[1] + '\n' != exp:
        acc.violation('corpus-tokens', {'kind': 'corpus', 'path': path}, 'token listing differs from the shared acceptance corpus')
    check_text(text, acc)
    return acc


@worker
def job_script(paths):
    """scripts/generate_tokens.py: for every corpus file alone its output is the golden .tokens file; for several paths in one invocation
    (one Parser, one TokenFormatterBuilder reused) the output is the concatenation of the single outputs, in the order given."""
    import os
    from .c17 import run_script
    acc = Acc()
    singles = []
    for path in paths:
        rel = '../testdata/good/' + os.path.basename(path)
        case = {'kind': 'script', 'paths': [rel]}
        acc.n += 1
        acc.validated += 1
        acc.nontrivial += 1
        try:
            out = run_script('generate_tokens', [rel])
        except BaseException as e:  # noqa: BLE001
            acc.violation('script-exception', case, 'generate_tokens raised %s: %s' % (type(e).__name__, e))
            singles.append(None)
            continue
        singles.append(out)
        want = open(path + '.tokens', encoding='utf8', newline='').read()
        if out != want:
            gl, wl = out.split('\n'), want.split('\n')
            i = next((i for i, (x, y) in enumerate(zip(gl, wl)) if x != y), min(len(gl), len(wl)))
            acc.violation('script-vs-corpus', case, 'generate_tokens output differs from %s.tokens at row %d' % (os.path.basename(path), i + 1), observed=gl[i:i + 1], expected=wl[i:i + 1])
    if all(x is not None for x in singles) and len(paths) > 1:
        for order in (list(range(len(paths))), list(range(len(paths)))[::-1], [0, 0, len(paths) - 1]):
            rels = ['../testdata/good/' + os.path.basename(paths[i]) for i in order]
            case = {'kind': 'script', 'paths': rels}
            acc.n += 1
            acc.validated += 1
            acc.nontrivial += 1
            try:
                out = run_script('generate_tokens', rels)
            except BaseException as e:  # noqa: BLE001
                acc.violation('script-exception', case, 'generate_tokens raised %s: %s' % (type(e).__name__, e))
                continue
            if out != ''.join(singles[i] for i in order):
                acc.violation('script-multi', case, 'generate_tokens over %d paths does not print the concatenation of the listings of the single files' % len(rels))
    acc.sample({'script': 'generate_tokens', 'files': [os.path.basename(p) for p in paths]})
    return acc


@worker
def job_script_paths(script):
    """The scripts take their arguments as paths, literally: files whose names contain shell / glob metacharacters, blanks or non-ASCII letters
    (with a decoy next to them that a pattern would match instead) are read as named, once per mention, in the order given."""
    import os
    import shutil
    import tempfile
    from .c17 import run_script
    acc = Acc()
    good, bad = R.corpus()
    tmp = tempfile.mkdtemp(prefix='c18-paths-')
    try:
        texts = [R.read_source(p) for p in good[:6]]
        names = ['login[1].feature', 'login1.feature', 'a*b.feature', 'ab.feature', 'q?.feature', 'with blank.feature', 'ü😀.feature', '{x,y}.feature', '~t.feature', '-n.feature']
        paths = []
        written = {}
        for i, n in enumerate(names):
            path = os.path.join(tmp, n)
            written[path] = texts[i % len(texts)].replace('Feature:', 'Feature: %d' % i, 1)
            with open(path, 'w', encoding='utf8', newline='') as f:
                f.write(written[path])
            paths.append(path)
        flags = [] if script == 'generate_tokens' else ['--no-source', '--no-pickles']
        singles = []
        for path in paths:
            case = {'kind': 'script-paths', 'script': script, 'names': [os.path.basename(path)]}
            acc.n += 1
            acc.validated += 1
            try:
                singles.append(run_script(script, flags + [path]))
            except BaseException as e:  # noqa: BLE001
                acc.violation('script-exception', case, '%s raised %s: %s' % (script, type(e).__name__, e))
                return acc
            if script == 'generate_tokens':
                a = I.tokens(written[path])
                if a[0] != 'ok' or singles[-1] != a[1] + '\n':
                    acc.violation('script-paths', case, '%s %r does not print the listing of that file' % (script, os.path.basename(path)), observed=singles[-1][:120])
            if script != 'generate_tokens' and ('"uri": "%s"' % path.replace('\\', '\\\\')) not in singles[-1] and (json.dumps(path)[1:-1] not in singles[-1]):
                acc.violation('script-paths', case, '%s %r does not print a document with that uri' % (script, os.path.basename(path)), observed=singles[-1][:160])
        for order in (list(range(len(paths))), [2, 0, 0, 5, 7, 4]):
            case = {'kind': 'script-paths', 'script': script, 'names': [names[i] for i in order]}
            acc.n += 1
            acc.validated += 1
            acc.nontrivial += 1
            try:
                out = run_script(script, flags + [paths[i] for i in order])
            except BaseException as e:  # noqa: BLE001
                acc.violation('script-exception', case, '%s raised %s: %s' % (script, type(e).__name__, e))
                continue
            want = ''.join(singles[i] for i in order)
            if script != 'generate_tokens':
                # one stream: ids continue, so compare envelope kinds and uris only
                out = [(next(iter(e)), (e.get('gherkinDocument') or {}).get('uri')) for e in map(json.loads, out.splitlines())]
                want = [(next(iter(e)), (e.get('gherkinDocument') or {}).get('uri')) for e in map(json.loads, want.splitlines())]
            if out != want:
                acc.violation('script-paths', case, '%s over paths with unusual names does not print one listing per path given, in order' % script)
    finally:
        shutil.rmtree(tmp, ignore_errors=True)
    acc.sample({'script': script, 'names': names})
    return acc


def _noid(o):
    if isinstance(o, dict):
        return {k: _noid(v) for k, v in o.items() if k != 'id'}
    if isinstance(o, list):
        return [_noid(v) for v in o]
    return o


ABORTS = [
    'Feature: f\n  Scenario: s\n    Given g\n      | a | b |\n      | c |\n  @dangling\n',
    'Feature: f\n  Scenario Outline: s\n    Given g\n    Examples:\n      | a | b |\n      | c |\n  @t\n  # c\n\n  Scenario: next\n    Given x\n',
    'Feature: f\n  Scenario: s\n    Given g\n  @bad tag\n  @t2\n  Scenario: t\n',
    'zzz\n' * 10 + 'Feature: f\n  Scenario: s\n    Given g\n      | a | b |\n      | c |\n  @t\n  @u\n  Scenario: x\n',
    '@t\n@u\n# c\n',
]
AFTER = [
    'Feature: g\n  Scenario: s\n    Given x\n',
    '',
    'Feature: g\n  @a\n  @b\n  Scenario: s\n    Given x\n    @e\n    Examples:\n      | a |\n',
    '# c\n\nFeature: g\n',
]


@worker
def job_after_abort(ai):
    """A parse that is abandoned while look-ahead still has lines buffered (stop-at-first-error / eleventh error / end of file) must not
    leave lines behind for the next parse - whichever parser runs next in the same process."""
    acc = Acc()
    for stop in (True, False):
        for reuse in (False, True):
            for gi, good in enumerate(AFTER):
                from gherkin.parser import Parser
                from gherkin.errors import ParserError
                p = Parser()            # the real AST builder: a ragged table is reported when its rule is closed
                p.stop_at_first_error = stop
                try:
                    p.parse(I.StringScanner(ABORTS[ai]))
                except ParserError:
                    pass
                except Exception as e:  # noqa: BLE001
                    acc.violation('foreign-exception', {'kind': 'text', 'text': ABORTS[ai]}, '%s: %s' % (type(e).__name__, e))
                case = {'kind': 'after-abort', 'aborted': ABORTS[ai], 'stop': stop, 'same_parser': reuse, 'text': good}
                if reuse:
                    p.stop_at_first_error = False
                    acc.n += 1
                    acc.validated += 1
                    acc.nontrivial += 1
                    want = I.parse(good)
                    try:
                        got = ('ok', p.parse(I.StringScanner(good)))
                    except Exception as e:  # noqa: BLE001
                        got = ('rejected', str(e))
                    if got[0] != want[0] or (got[0] == 'ok' and _noid(got[1]) != _noid(want[1])):
                        acc.violation('delivery-after-abort', case, 'the parser that abandoned a parse does not parse the next document like a fresh parser',
                                      observed=got[1] if got[0] != 'ok' else 'different AST', expected=want[0])
                else:
                    sub = Acc()
                    check_text(good, sub)
                    for sig, lst in sub.viol.items():
                        for v in lst:
                            acc.violation('delivery-after-abort', case, 'after an abandoned parse in the same process: ' + v['message'], observed=v.get('observed'), expected=v.get('expected'))
                    acc.n += sub.n
                    acc.validated += sub.validated
                    acc.nontrivial += 1
                    kinds_word = ['FeatureLine', 'TagLine', 'Comment', 'ScenarioLine', 'StepLine']
                    check_kinds(kinds_word, acc)
    acc.sample({'aborted': ABORTS[ai], 'then': AFTER[0]})
    return acc


@worker
def job_limit(state):
    """Error limit at kind level: from every state, m = 9..14 lines of a kind that is unexpected there, then well-formed lines: once the
    eleventh error is recorded nothing more is delivered to the builder and the scanner is not read on."""
    from .c02 import setup
    spec, T, info = setup()
    acc = Acc()
    wit = kind_witness()[state]
    word = None
    bad = [k for k in KINDS if T.get((state, k, 'N'), (None, (), ()))[2]]
    for k in bad[:3]:
        for m in range(9, 15):
            for tail in ((), ('FeatureLine', 'ScenarioLine', 'StepLine'), (k,), ('Comment', 'Empty', 'TagLine', 'ScenarioLine')):
                word = wit + (k,) * m + tail
                check_kinds(word, acc, strict_reads=True)
                acc.counters['error_limit_words'] += 1
    if word:
        acc.sample({'kinds': list(word)})
    return acc


SIZES = (62, 63, 64, 65, 127, 128, 129, 255, 256, 257, 1000)
LONG = (4095, 4096, 4097, 8190, 8191, 8192, 8193, 16385, 70000)


@worker
def job_long_runs(state):
    """Size boundaries of the look-ahead queue: runs of n tag / comment / blank lines (n around powers of two, up to 1000)
    between a tag line and the line that decides the look-ahead."""
    acc = Acc()
    wit = kind_witness()[state]
    word = None
    for n in SIZES:
        for unit in (('TagLine',), ('Comment',), ('Empty',), ('TagLine', 'Comment'), ('Empty', 'TagLine', 'Comment')):
            run_ = (unit * (n // len(unit) + 1))[:n]
            for t in ('ScenarioLine', 'ExamplesLine', 'RuleLine', 'StepLine', None):
                word = wit + ('TagLine',) + run_ + ((t,) if t else ())
                check_kinds(word, acc)
                acc.counters['long_run_words'] += 1
        # as text, through the real matcher and the token formatter
        text = ''.join(DS.CANON[k] for k in wit) + '@first\n' + ('# c\n\n@t\n' * (n // 3 + 1)) + 'Scenario: s\n'
        check_text(text, acc)
    acc.sample({'kinds': list(word[:12]) + ['... %d more' % (len(word) - 12)]})
    return acc


@worker
def job_long_lines(n):
    """One physical line of n characters (around buffer sizes) in every role: it is still one token with one line number."""
    acc = Acc()
    pad = 'x' * n
    row = '| ' + ' | '.join(['c%d' % i for i in range(n // 6)]) + ' |'
    docs = [
        'Feature: f\n  ' + pad + '\n  Scenario: s\n    Given g\n',
        'Feature: f\n# ' + pad + '\n  Scenario: s\n',
        'Feature: ' + pad + '\n  Scenario: s\n    Given ' + pad + '\n    Then t\n',
        'Feature: f\n  Scenario: s\n    Given g\n      ' + row + '\n      ' + row + '\n    Then t\n',
        'Feature: f\n  Scenario: s\n    Given g\n      """\n      ' + pad + '\n      """\n    Then t\n',
        'Feature: f\n  ' + ' '.join('@t%d' % i for i in range(n // 5)) + '\n  Scenario: s\n',
        ' ' * n + 'Feature: f\n' + ' ' * n + '\n  Scenario: s\n',
        'Feature: f\n  Scenario: s\n' + pad + '\n' + pad + '\n',
    ]
    for t in docs:
        check_text(t, acc)
        check_text(t.replace('\n', '\r\n'), acc)
    acc.sample({'text': docs[0][:80] + '... (%d characters)' % len(docs[0])})
    return acc


FILE_SEPS = ['\x0b', '\x0c', '\x1c', '\x1d', '\x1e', '\x85', '\u2028', '\u2029', '\r', '\x00', '\ufeff', '\U0001F600']


@worker
def job_file_route(bi):
    """The same text given as a file path: for every short corpus / base document and every position, one character that some line
    splitters treat as a line end (VT, FF, FS, GS, RS, NEL, LS, PS, a lone CR) or that byte-level readers mishandle is inserted; the
    builder must receive from TokenScanner(path) exactly the tokens it receives from the string."""
    import os
    import shutil
    import tempfile
    from gherkin.parser import Parser
    from gherkin.token_scanner import TokenScanner
    from gherkin.errors import ParserError
    from .. import docspace as DS
    acc = Acc()
    base = DS.edit_bases(130)[bi]
    tmp = tempfile.mkdtemp(prefix='c18-')
    text = base
    try:
        path = os.path.join(tmp, 'doc.feature')
        for i in range(len(base) + 1):
            for c in FILE_SEPS:
                text = base[:i] + c + base[i:]
                case = {'kind': 'file-text', 'text': text}
                acc.n += 1
                acc.validated += 1
                with open(path, 'w', encoding='utf8', newline='') as f:
                    f.write(text)
                a = I.tokens(text)
                b = I.TokenRecorder()
                try:
                    Parser(b).parse(TokenScanner(path))
                    st = 'ok'
                except ParserError:
                    st = 'errors'
                except Exception as e:  # noqa: BLE001
                    acc.violation('foreign-exception', case, 'token listing of the file raised %s: %s' % (type(e).__name__, e))
                    continue
                if a[0] == 'exc':
                    acc.violation('foreign-exception', case, 'token listing of the string raised ' + a[1])
                    continue
                acc.nontrivial += 1
                acc.outcomes['file:' + st] += 1
                got = [token_fields(t) for t in b.tokens()]
                exp = [token_fields(t) for t in a[2]]
                if got != exp or (st == 'ok') != (a[0] == 'ok'):
                    j = next((j for j, (x, y) in enumerate(zip(got, exp)) if x != y), min(len(got), len(exp)))
                    acc.violation('file-vs-string-tokens', case, 'token %d delivered from the file differs from the token delivered from the same text as a string (%d / %d tokens)' % (j, len(got), len(exp)),
                                  observed=got[j:j + 1], expected=exp[j:j + 1])
    finally:
        shutil.rmtree(tmp, ignore_errors=True)
    acc.sample({'text': text[:200]})
    return acc


def run(ctx):
    probs = R.selftest()
    ctx.selftest(not probs, 'reference pipeline reproduces the acceptance corpus (%s)' % (probs[:3] or 'ok'))
    ctx.alphabet = {'kinds': KINDS, 'runs': RUNS, 'lines': DS.SIGMA_FULL}
    ctx.rule = ('kind sequences through the real parse loop with a recording builder; look-ahead words TagLine r1 t1 r2 t2 from every state with a '
                'look-ahead alternative; text documents through TokenFormatterBuilder; non-trivial = accepted runs or runs containing tag lines (look-ahead exercised)')
    ctx.assumptions = ['kind level abstracts lexing (stub matcher); the text level uses the real matcher and the reference lexer self-tested on the corpus']
    good, bad = R.corpus()
    ctx.level('corpus-token-listings', [job_corpus.job(p) for p in good])
    ctx.level('generate_tokens script on the corpus, alone and several paths at once', [job_script.job(good[i:i + 3]) for i in range(0, len(good), 3)])
    L = ctx.pick(5, 6)
    jobs = [job_words.job((), 1)] + [job_words.job((a,), 1) for a in KINDS] + [job_words.job((a, b), L) for a in KINDS for b in KINDS]
    ctx.level('scripts given paths with glob characters, blanks, non-ASCII names', [job_script_paths.job(sc) for sc in ('generate_tokens', 'generate_events')])
    ctx.level('kind-sequences L<=%d' % L, jobs)
    r1, r2 = ctx.pick((3, 1), (4, 2))
    ctx.level('look-ahead words r1<=%d r2<=%d' % (r1, r2), [job_la.job(s, r1, r2, False) for s in la_states()])
    ctx.level('look-ahead words as text r1<=2 r2<=1', [job_la.job(s, 2, 1, True) for s in la_states()])
    ctx.level('error limit from every state', [job_limit.job(st) for st in sorted(kind_witness()) if st != TB.FINAL])
    ctx.level('size boundaries: long tag/comment/blank runs', [job_long_runs.job(st) for st in la_states()])
    ctx.level('size boundaries: long lines', [job_long_lines.job(n) for n in LONG])
    ctx.level('abandoned parse, then the next parse', [job_after_abort.job(i) for i in range(len(ABORTS))])
    ctx.level('the same text as a file: line-separator look-alikes at every position of the short documents', [job_file_route.job(bi) for bi in range(len(DS.edit_bases(130)))])
    k_full, k_core = ctx.pick((2, 2), (3, 3))
    DS.run_levels(ctx, __name__, k_full, k_core)
    ctx.notes['lookahead_states'] = la_states()


def replay(case):
    acc = Acc()
    if case.get('kind') == 'kinds':
        check_kinds(case['kinds'], acc)
    elif case.get('kind') == 'after-abort':
        for i, a in enumerate(ABORTS):
            if a == case['aborted']:
                acc.merge(job_after_abort(i))
    elif case.get('kind') == 'corpus':
        acc.merge(job_corpus(case['path']))
    elif case.get('kind') == 'script-paths':
        acc.merge(job_script_paths(case['script']))
    elif case.get('kind') == 'script':
        import os
        from .. import core as _core
        acc.merge(job_script([os.path.join(_core.REPO, 'testdata', 'good', os.path.basename(p)) for p in dict.fromkeys(case['paths'])]))
    elif case.get('kind') == 'file-text':
        import os
        import tempfile
        from gherkin.parser import Parser
        from gherkin.token_scanner import TokenScanner
        from gherkin.errors import ParserError
        with tempfile.TemporaryDirectory(prefix='c18-') as tmp:
            path = os.path.join(tmp, 'doc.feature')
            with open(path, 'w', encoding='utf8', newline='') as f:
                f.write(case['text'])
            b = I.TokenRecorder()
            try:
                Parser(b).parse(TokenScanner(path))
            except ParserError:
                pass
            a = I.tokens(case['text'])
            if [token_fields(t) for t in b.tokens()] != [token_fields(t) for t in a[2]]:
                return ['tokens delivered from the file differ from the tokens delivered from the same text as a string']
        return []
    else:
        check_text(case['text'], acc)
    return [v[0]['message'] + ' observed=%r expected=%r' % (v[0].get('observed'), v[0].get('expected')) for v in acc.viol.values()]
