"""C13 - doc strings are opaque: verbatim content, closed only by their own delimiter.

Document models (E5, doc-string family): content = every sequence of <= n lines over 18 line forms (every kind of
Gherkin-looking line, blank, whitespace-only, the other delimiter, the escaped active and the escaped other delimiter,
text with trailing blanks) x each line at an indentation less than / equal to / greater than the delimiter's x both
delimiters x delimiter indentation {0, 2, 5} x media type {none, json, 'a b'} x host {background, scenario, outline,
rule} x follower {EOF, step, scenario, tags + scenario, examples} x line end {LF, CRLF}.  The AST (locations and
ids projected away) must equal the model: one doc string with exactly those lines, delimiter as written, media type
absent when empty, and the follower parsed normally."""
from __future__ import annotations

import itertools

from .. import core
from ..core import Acc, worker
from .. import docmodel as M
from .. import impl as I
from .c03 import project, first_diff

S = M.step
FORMS = ['Feature: x', 'Scenario: x', 'Examples:', 'Given x', '@t', '# c', '#language: fr', '| a |', '', '   ', 'OTHER', 'ESC', 'ESC-OTHER', 'text  ', 'MID',
         # look-alikes that would be *faulty* lines outside a doc string (tag with a blank, unknown language, unfinished cell escape)
         '@Override public', '#language: no-such', '| a \\']
RELS = ['less', 'equal', 'more']
DELIMS = ['"""', '```']
INDENTS = [0, 2, 5]
MEDIA = ['', 'json', ' a b ', '"', '`x`', '\\"\\"\\"', 'x=\\`\\`\\`;v']
HOSTS = ['background', 'scenario', 'outline', 'rule']
FOLLOW = ['eof', 'step', 'scenario', 'tags+scenario', 'examples']
# (media, host, follower, eol) combinations: every value of every dimension appears, all pairs host x follower appear
COMBOS_QUICK = [(m, h, f, e) for (h, f) in itertools.product(HOSTS, FOLLOW) for m, e in [(MEDIA[(HOSTS.index(h) + FOLLOW.index(f)) % len(MEDIA)], '\n' if (HOSTS.index(h) + FOLLOW.index(f)) % 4 else '\r\n')]]
COMBOS_ALL = list(itertools.product(MEDIA, HOSTS, FOLLOW, ['\n', '\r\n']))


def content_line(form, rel, delim, dind):
    other = '```' if delim == '"""' else '"""'
    esc = {'"""': '\\"\\"\\"', '```': '\\`\\`\\`'}
    text = {'OTHER': other, 'ESC': esc[delim], 'ESC-OTHER': esc[other],
            'MID': 'x = %s mid %s %s end' % (esc[delim], esc[other], esc[delim])}.get(form, form)
    if rel == 'less':
        if dind == 0:
            return None
        n = dind - 1 if dind == 2 else 2
    elif rel == 'equal':
        n = dind
    else:
        n = dind + 2
    return ('raw', ' ' * n + text)


def build(lines, delim, dind, media, host, follower):
    d = M.doc(lines, delimiter=delim, media=media)
    st = S('g', arg=d)
    after_steps = [S('after', role='and')] if follower == 'step' else []
    after_scen = []
    if follower == 'scenario':
        after_scen = [M.scenario('next', [S('n')])]
    elif follower == 'tags+scenario':
        after_scen = [M.scenario('next', [S('n')], tags=[M.tagline(['@x'])])]
    exs = [M.examples('e', [['a'], ['1']])] if follower == 'examples' else []
    if follower == 'examples' and host != 'outline':
        return None
    if host == 'background':
        return M.feature('f', [M.background('', [st] + after_steps)] + after_scen)
    if host == 'scenario':
        return M.feature('f', [M.scenario('s', [st] + after_steps)] + after_scen)
    if host == 'outline':
        return M.feature('f', [M.scenario('o', [st] + after_steps, exs or [M.examples('e0', [['a'], ['1']])] if follower != 'eof' or True else [], outline=True)] + after_scen)
    return M.feature('f', [M.rule('r', [M.scenario('s', [st] + after_steps)] + after_scen)])


def layout_for(dind, eol):
    # the doc string is rendered at level 3 (step level + 1): give that level the wanted indentation
    ind = ('', ' ' * min(dind, 1), ' ' * min(dind, 2), ' ' * dind, ' ' * dind)
    return M.Layout(indent=ind, eol=eol)


def check_model(text, exp, renderer, acc, case):
    acc.n += 1
    acc.validated += 1
    acc.nontrivial += 1
    want = project(exp)
    for route, a in I.parse_routes(text, 'en', acc):
        if a[0] != 'ok':
            acc.violation('docstring-rejected', case, '%s: document with an opaque doc string rejected: %s' % (route, a[1][:2]))
            return
        got = project(a[1])
        if got != want:
            p, x, y = first_diff(got, want)
            leaf = [s for s in p.split('/') if s and not s.isdigit()]
            sig = 'docstring-' + leaf[-1] if 'docString' in p else 'after-docstring'
            acc.violation(sig, case, '%s: AST differs from the document model at %s' % (route, p), observed=x, expected=y)
            return
    # location of the doc string = its opening delimiter
    gl = [s['docString']['location'] for s in _steps(a[1]) if 'docString' in s]
    wl = [s['docString']['location'] for s in _steps(exp) if 'docString' in s]
    if gl != wl:
        acc.violation('docstring-location', case, 'doc string location differs', observed=gl, expected=wl)


def _steps(doc):
    out = []

    def walk(o):
        if isinstance(o, dict):
            if 'keywordType' in o:
                out.append(o)
            for v in o.values():
                walk(v)
        elif isinstance(o, list):
            for v in o:
                walk(v)
    walk(doc)
    return out


@worker
def job_content(nlines, first, combos_name):
    acc = Acc()
    combos = COMBOS_QUICK if combos_name == 'quick' else COMBOS_ALL
    text = None
    variants = [(f, r) for f in FORMS for r in RELS]
    seqs = [()] if nlines == 0 else ((variants[first],) + rest for rest in itertools.product(variants, repeat=nlines - 1))
    for seq in seqs:
        for delim in DELIMS:
            for dind in INDENTS:
                lines = [content_line(f, r, delim, dind) for f, r in seq]
                if any(l is None for l in lines):
                    continue
                for (media, host, follower, eol) in combos:
                    model = build(lines, delim, dind, media, host, follower)
                    if model is None:
                        continue
                    text, exp, r = M.render(model, layout_for(dind, eol))
                    if not M.roles_ok(r):
                        acc.counters['models_discarded_role_mismatch'] += 1
                        continue
                    acc.states.add((delim, dind, host, follower))
                    for f, rel in seq:
                        acc.trans.add((f, rel, delim))
                    acc.outcomes['%d lines' % len(seq)] += 1
                    check_model(text, exp, r, acc, {'kind': 'text', 'text': text})
    acc.sample({'text': text})
    return acc


@worker
def job_two(d1i, d2i):
    """Two doc strings in one document (same or different delimiters, different indentation): the second one must be
    read exactly like a first one - delimiter, escapes and indentation of the earlier one must not linger."""
    acc = Acc()
    d1, d2 = DELIMS[d1i], DELIMS[d2i]
    text = None
    singles = [()] + [((f, r),) for f in FORMS for r in RELS]
    pairs = [((f, 'equal'), (g, 'equal')) for f in ('ESC', 'ESC-OTHER', 'OTHER', '   ') for g in ('ESC', 'ESC-OTHER', 'OTHER', 'text  ')]
    for c1 in [(), (('ESC', 'equal'),), (('ESC-OTHER', 'more'),), (('plain', 'less'),)]:
        for c2 in singles + pairs:
            for ind1, ind2 in ((2, 2), (5, 2), (2, 5), (0, 5)):
                l1 = [content_line(f if f != 'plain' else 'text  ', r, d1, ind1) for f, r in c1]
                l2 = [content_line(f, r, d2, ind2) for f, r in c2]
                if any(l is None for l in l1 + l2):
                    continue
                # two steps in two scenarios so that each doc string can have its own indentation
                st1 = S('g', arg=M.doc(l1, delimiter=d1, media='m1'))
                st2 = S('h', arg=M.doc(l2, delimiter=d2))
                lay1 = layout_for(ind1, '\n')
                # render the two scenarios with different layouts by rendering twice and splicing is not possible with one renderer:
                # use raw lines for the second doc string at its own indentation instead
                raw2 = [('raw', ' ' * ind2 + d2)]
                model = M.feature('f', [M.scenario('s1', [st1]), M.scenario('s2', [st2], desc=[T_('  description after a doc string')])])
                text, exp, r = M.render(model, M.Layout(indent=('', ' ', '  ', ' ' * max(ind1, 0), ' ' * max(ind1, 0))))
                if ind1 != ind2:
                    continue_with = layout_for(ind2, '\n')
                    # re-render with the second indentation for level 3 only when both are equal; otherwise use a per-document layout
                    model = M.feature('f', [M.scenario('s1', [S('g', arg=M.doc([x if isinstance(x, tuple) else x for x in l1], delimiter=d1, media='m1'))]),
                                            M.rule('r', [M.scenario('s2', [st2], desc=[T_('      description after a doc string')])])])
                    text, exp, r = M.render(model, M.Layout(indent=('', ' ', '  ', ' ' * ind1, ' ' * ind2)))
                if not M.roles_ok(r):
                    acc.counters['models_discarded_role_mismatch'] += 1
                    continue
                acc.states.add((d1, d2, ind1, ind2))
                acc.outcomes['two doc strings'] += 1
                check_model(text, exp, r, acc, {'kind': 'text', 'text': text})
    acc.sample({'text': text})
    return acc


@worker
def job_close_indent(di):
    """Opening and closing delimiter at different indentations (each 0..7), content lines shallower / equal / deeper than either, a step, a
    scenario or the end of input after it: the reference AST (closing delimiter = a line whose trimmed text starts with the opening one)."""
    from .. import ref as R
    acc = Acc()
    delim = DELIMS[di]
    other = DELIMS[1 - di]
    text = None
    for oi in (0, 1, 2, 6):
        for ci in range(0, 9):
            for content in ([], ['x'], [' ' * oi + 'y', ' ' * ci + other, ' ' * (ci + 1) + 'z '], [' ' * max(oi, ci) + '\\' + '\\'.join(delim)]):
                for tail in ('', '    And after\n', '  Scenario: next\n    * n\n', '\n'):
                    for media in ('', 'json'):
                        text = 'Feature: f\n  Background:\n    Given g\n' + ' ' * oi + delim + media + '\n' + ''.join(c + '\n' for c in content) + ' ' * ci + delim + '\n' + tail
                        case = {'kind': 'text', 'text': text}
                        acc.n += 1
                        acc.validated += 1
                        acc.nontrivial += 1
                        r = R.reference(text, compile_=False)
                        if r.status != 'ok':
                            raise core.InternalError('family design: the reference rejects %r' % text)
                        rd = dict(r.doc)
                        rd.pop('uri', None)
                        want = project(rd)
                        acc.states.add((delim, oi, ci))
                        for route, a in I.parse_routes(text, 'en', acc):
                            if a[0] != 'ok':
                                acc.violation('docstring-rejected', case, '%s: document whose closing delimiter is indented %d (opening %d) rejected: %s' % (route, ci, oi, a[1][:2]))
                                break
                            if project(a[1]) != want:
                                p_, x, y = first_diff(project(a[1]), want)
                                acc.violation('docstring-close', case, '%s: closing delimiter indented %d (opening %d): AST differs from the reference at %s' % (route, ci, oi, p_), observed=x, expected=y)
                                break
    acc.sample({'text': text})
    return acc


def T_(s):
    return ('text', s)


def run(ctx):
    ctx.alphabet = {'line_forms': FORMS, 'indentation_relations': RELS, 'delimiters': DELIMS, 'delimiter_indent': INDENTS, 'media': MEDIA, 'hosts': HOSTS, 'followers': FOLLOW}
    ctx.rule = ('doc-string models: all content sequences of <= n lines over line form x indentation relation, x delimiter x delimiter indentation x (media, host, follower, line end) combinations; '
                'admitted only if the grammar automaton reads each line in the intended role; all non-trivial')
    ctx.assumptions = ['quick crosses (media, host, follower, line end) as a covering set in which every host x follower pair occurs; thorough takes the full cross product for n <= 2']
    nv = len(FORMS) * len(RELS)
    ctx.level('content 0 lines', [job_content.job(0, 0, 'all')])
    ctx.level('content 1 line', [job_content.job(1, i, 'all') for i in range(nv)])
    ctx.level('content 2 lines', [job_content.job(2, i, 'quick' if ctx.quick else 'all') for i in range(nv)])
    ctx.level('two doc strings in one document', [job_two.job(a, b) for a in (0, 1) for b in (0, 1)])
    ctx.level('closing delimiter at another indentation than the opening one', [job_close_indent.job(i) for i in (0, 1)])
    if not ctx.quick:
        ctx.level('content 3 lines', [job_content.job(3, i, 'quick') for i in range(nv)])


def replay(case):
    from .. import ref as R
    a = I.parse(case['text'])
    r = R.reference(case['text'], compile_=False)
    if a[0] != 'ok':
        return ['rejected: %s' % (a[1][:2],)]
    rd = dict(r.doc)
    rd.pop('uri', None)
    if project(a[1]) != project(rd):
        return ['AST differs from the reference: %s' % (first_diff(project(a[1]), project(rd)),)]
    return []
