"""C13 - doc strings are opaque: verbatim content, closed only by their own delimiter.

Document models (E5, doc-string family): content = every sequence of <= n lines over 14 line forms (every kind of
Gherkin-looking line, blank, whitespace-only, the other delimiter, the escaped active and the escaped other delimiter,
text with trailing blanks) x each line at an indentation less than / equal to / greater than the delimiter's x both
delimiters x delimiter indentation {0, 2, 5} x media type {none, json, 'a b'} x host {background, scenario, outline,
rule} x follower {EOF, step, scenario, tags + scenario, examples} x line end {LF, CRLF}.  The AST (locations and
ids projected away) must equal the model: one doc string with exactly those lines, delimiter as written, media type
absent when empty, and the follower parsed normally."""
from __future__ import annotations

import itertools

from ..core import Acc, worker
from .. import docmodel as M
from .. import impl as I
from .c03 import project, first_diff

S = M.step
FORMS = ['Feature: x', 'Scenario: x', 'Examples:', 'Given x', '@t', '# c', '#language: fr', '| a |', '', '   ', 'OTHER', 'ESC', 'ESC-OTHER', 'text  ']
RELS = ['less', 'equal', 'more']
DELIMS = ['"""', '```']
INDENTS = [0, 2, 5]
MEDIA = ['', 'json', ' a b ']
HOSTS = ['background', 'scenario', 'outline', 'rule']
FOLLOW = ['eof', 'step', 'scenario', 'tags+scenario', 'examples']
# (media, host, follower, eol) combinations: every value of every dimension appears, all pairs host x follower appear
COMBOS_QUICK = [(m, h, f, e) for (h, f) in itertools.product(HOSTS, FOLLOW) for m, e in [(MEDIA[(HOSTS.index(h) + FOLLOW.index(f)) % 3], '\n' if (HOSTS.index(h) + FOLLOW.index(f)) % 4 else '\r\n')]]
COMBOS_ALL = list(itertools.product(MEDIA, HOSTS, FOLLOW, ['\n', '\r\n']))


def content_line(form, rel, delim, dind):
    other = '```' if delim == '"""' else '"""'
    esc = {'"""': '\\"\\"\\"', '```': '\\`\\`\\`'}
    text = {'OTHER': other, 'ESC': esc[delim], 'ESC-OTHER': esc[other]}.get(form, form)
    if rel == 'less':
        if dind == 0:
            return None
        n = dind - 1 if dind == 2 else 2
    elif rel == 'equal':
        n = dind
    else:
        n = dind + 2
    return ('raw', ' ' * n + text)


def build(lines, delim, dind, media, host, follower):
    d = M.doc(lines, delimiter=delim, media=media)
    st = S('g', arg=d)
    after_steps = [S('after', role='and')] if follower == 'step' else []
    after_scen = []
    if follower == 'scenario':
        after_scen = [M.scenario('next', [S('n')])]
    elif follower == 'tags+scenario':
        after_scen = [M.scenario('next', [S('n')], tags=[M.tagline(['@x'])])]
    exs = [M.examples('e', [['a'], ['1']])] if follower == 'examples' else []
    if follower == 'examples' and host != 'outline':
        return None
    if host == 'background':
        return M.feature('f', [M.background('', [st] + after_steps)] + after_scen)
    if host == 'scenario':
        return M.feature('f', [M.scenario('s', [st] + after_steps)] + after_scen)
    if host == 'outline':
        return M.feature('f', [M.scenario('o', [st] + after_steps, exs or [M.examples('e0', [['a'], ['1']])] if follower != 'eof' or True else [], outline=True)] + after_scen)
    return M.feature('f', [M.rule('r', [M.scenario('s', [st] + after_steps)] + after_scen)])


def layout_for(dind, eol):
    # the doc string is rendered at level 3 (step level + 1): give that level the wanted indentation
    ind = ('', ' ' * min(dind, 1), ' ' * min(dind, 2), ' ' * dind, ' ' * dind)
    return M.Layout(indent=ind, eol=eol)


def check_model(text, exp, renderer, acc, case):
    acc.n += 1
    acc.validated += 1
    a = I.parse(text, acc=acc)
    if a[0] != 'ok':
        acc.violation('docstring-rejected', case, 'document with an opaque doc string rejected: %s' % (a[1][:2],))
        return
    acc.nontrivial += 1
    got, want = project(a[1]), project(exp)
    if got != want:
        p, x, y = first_diff(got, want)
        leaf = [s for s in p.split('/') if s and not s.isdigit()]
        sig = 'docstring-' + leaf[-1] if 'docString' in p else 'after-docstring'
        acc.violation(sig, case, 'AST differs from the document model at %s' % p, observed=x, expected=y)
    # location of the doc string = its opening delimiter
    gl = [s['docString']['location'] for s in _steps(a[1]) if 'docString' in s]
    wl = [s['docString']['location'] for s in _steps(exp) if 'docString' in s]
    if gl != wl:
        acc.violation('docstring-location', case, 'doc string location differs', observed=gl, expected=wl)


def _steps(doc):
    out = []

    def walk(o):
        if isinstance(o, dict):
            if 'keywordType' in o:
                out.append(o)
            for v in o.values():
                walk(v)
        elif isinstance(o, list):
            for v in o:
                walk(v)
    walk(doc)
    return out


@worker
def job_content(nlines, first, combos_name):
    acc = Acc()
    combos = COMBOS_QUICK if combos_name == 'quick' else COMBOS_ALL
    text = None
    variants = [(f, r) for f in FORMS for r in RELS]
    seqs = [()] if nlines == 0 else ((variants[first],) + rest for rest in itertools.product(variants, repeat=nlines - 1))
    for seq in seqs:
        for delim in DELIMS:
            for dind in INDENTS:
                lines = [content_line(f, r, delim, dind) for f, r in seq]
                if any(l is None for l in lines):
                    continue
                for (media, host, follower, eol) in combos:
                    if delim == '```' and '`' in media:
                        continue
                    model = build(lines, delim, dind, media, host, follower)
                    if model is None:
                        continue
                    text, exp, r = M.render(model, layout_for(dind, eol))
                    if not M.roles_ok(r):
                        acc.counters['models_discarded_role_mismatch'] += 1
                        continue
                    acc.states.add((delim, dind, host, follower))
                    for f, rel in seq:
                        acc.trans.add((f, rel, delim))
                    acc.outcomes['%d lines' % len(seq)] += 1
                    check_model(text, exp, r, acc, {'kind': 'text', 'text': text})
    acc.sample({'text': text})
    return acc


def run(ctx):
    ctx.alphabet = {'line_forms': FORMS, 'indentation_relations': RELS, 'delimiters': DELIMS, 'delimiter_indent': INDENTS, 'media': MEDIA, 'hosts': HOSTS, 'followers': FOLLOW}
    ctx.rule = ('doc-string models: all content sequences of <= n lines over line form x indentation relation, x delimiter x delimiter indentation x (media, host, follower, line end) combinations; '
                'admitted only if the grammar automaton reads each line in the intended role; all non-trivial')
    ctx.assumptions = ['quick crosses (media, host, follower, line end) as a covering set in which every host x follower pair occurs; thorough takes the full cross product for n <= 2']
    nv = len(FORMS) * len(RELS)
    ctx.level('content 0 lines', [job_content.job(0, 0, 'all')])
    ctx.level('content 1 line', [job_content.job(1, i, 'all') for i in range(nv)])
    ctx.level('content 2 lines', [job_content.job(2, i, 'quick' if ctx.quick else 'all') for i in range(nv)])
    if not ctx.quick:
        ctx.level('content 3 lines', [job_content.job(3, i, 'quick') for i in range(nv)])


def replay(case):
    from .. import ref as R
    a = I.parse(case['text'])
    r = R.reference(case['text'], compile_=False)
    if a[0] != 'ok':
        return ['rejected: %s' % (a[1][:2],)]
    rd = dict(r.doc)
    rd.pop('uri', None)
    if project(a[1]) != project(rd):
        return ['AST differs from the reference: %s' % (first_diff(project(a[1]), project(rd)),)]
    return []
