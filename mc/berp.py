"""E1 - the grammar model: gherkin.berp -> position NFA -> subset automaton under the reading rule.

This is *not* Berp's generation algorithm (no ordered alternatives, no look-ahead, no numbering):
it is the declarative reading "is this sequence of line kinds a sentence", with the reading rule
the property states:

  a line whose own kind is k is read, in subset state S with expected terminals E(S), as
    1. k                      if k in E(S)
    2. Comment                if k = Language and Comment in E(S)
    3. Other                  if Other in E(S)
    4. (skipped)              if k in {Comment, Empty, Language}
    5. unexpected             otherwise
"""
from __future__ import annotations

import os
import re

from . import core

KINDS = ['Empty', 'Comment', 'TagLine', 'FeatureLine', 'RuleLine', 'BackgroundLine', 'ScenarioLine',
         'ExamplesLine', 'StepLine', 'DocStringSeparator', 'TableRow', 'Language', 'Other']
ALL = KINDS + ['EOF']


def tokenize(s):
    return re.findall(r'#\w+|\w+|[()|?*+]', s)


def parse_berp(path=None):
    path = path or os.path.join(core.REPO, 'gherkin.berp')
    txt = open(path, encoding='utf8').read()
    header, body = txt.split(']', 1)
    ignored = re.search(r'IgnoredTokens\s*->\s*([#\w,]+)', header).group(1).replace('#', '').split(',')
    tokens = re.search(r'\bTokens\s*->\s*([#\w,]+)', header).group(1).replace('#', '').split(',')
    rules = {}
    order = []
    for ln in body.split('\n'):
        ln = ln.split('//')[0].strip()
        if not ln:
            continue
        m = re.match(r'^(\w+)(!?)\s*(\[[^\]]*\])?\s*:=\s*(.*)$', ln)
        if not m:
            raise core.InternalError('cannot read grammar line: ' + ln)
        name, bang, hint, rhs = m.groups()
        la = None
        if hint:
            hm = re.match(r'\[(.*)->\s*#(\w+)\]', hint)
            la = {'skip': [x.strip().lstrip('#') for x in hm.group(1).split('|')], 'expect': hm.group(2)}
        rules[name] = {'node': bool(bang), 'lookahead': la, 'rhs': parse_expr(tokenize(rhs))}
        order.append(name)
    return {'rules': rules, 'order': order, 'ignored': ignored, 'tokens': tokens}


def parse_expr(toks):
    pos = 0

    def alt():
        nonlocal pos
        seqs = [seq()]
        while pos < len(toks) and toks[pos] == '|':
            pos += 1
            seqs.append(seq())
        return ('alt', seqs) if len(seqs) > 1 else seqs[0]

    def seq():
        items = []
        while pos < len(toks) and toks[pos] not in (')', '|'):
            items.append(post())
        return ('seq', items)

    def post():
        nonlocal pos
        t = toks[pos]
        if t == '(':
            pos += 1
            e = alt()
            assert toks[pos] == ')'
            pos += 1
        else:
            pos += 1
            e = ('tok', t[1:]) if t.startswith('#') else ('rule', t)
        while pos < len(toks) and toks[pos] in '?*+':
            e = (toks[pos], e)
            pos += 1
        return e
    e = alt()
    assert pos == len(toks)
    return e


class NFA:
    def __init__(self):
        self.n = 0
        self.eps = {}
        self.tr = {}

    def new(self):
        self.n += 1
        return self.n - 1

    def e(self, a, b):
        self.eps.setdefault(a, set()).add(b)

    def t(self, a, sym, b):
        self.tr.setdefault(a, []).append((sym, b))

    def closure(self, S):
        S = set(S)
        st = list(S)
        while st:
            x = st.pop()
            for y in self.eps.get(x, ()):
                if y not in S:
                    S.add(y)
                    st.append(y)
        return frozenset(S)

    def move(self, S, sym):
        return self.closure({b for a in S for (y, b) in self.tr.get(a, ()) if y == sym})

    def expected(self, S):
        return {y for a in S for (y, b) in self.tr.get(a, ())}


def build(nfa, rules, e, s, opaque=frozenset()):
    """Thompson construction; rule references are inlined unless the rule is in `opaque`
    (then it is a single symbol '@Rule')."""
    k = e[0]
    if k == 'tok':
        t = nfa.new()
        nfa.t(s, e[1], t)
        return t
    if k == 'rule':
        if e[1] in opaque:
            t = nfa.new()
            nfa.t(s, '@' + e[1], t)
            return t
        return build(nfa, rules, rules[e[1]]['rhs'], s, opaque)
    if k == 'seq':
        for x in e[1]:
            s = build(nfa, rules, x, s, opaque)
        return s
    if k == 'alt':
        end = nfa.new()
        for x in e[1]:
            a = nfa.new()
            nfa.e(s, a)
            b = build(nfa, rules, x, a, opaque)
            nfa.e(b, end)
        return end
    if k == '?':
        a = nfa.new()
        nfa.e(s, a)
        b = build(nfa, rules, e[1], a, opaque)
        end = nfa.new()
        nfa.e(b, end)
        nfa.e(s, end)
        return end
    if k == '*':
        a = nfa.new()
        nfa.e(s, a)
        b = build(nfa, rules, e[1], a, opaque)
        nfa.e(b, a)
        end = nfa.new()
        nfa.e(a, end)
        return end
    if k == '+':
        a = nfa.new()
        nfa.e(s, a)
        b = build(nfa, rules, e[1], a, opaque)
        nfa.e(b, a)
        end = nfa.new()
        nfa.e(b, end)
        return end
    raise ValueError(k)


class Spec:
    """Subset automaton of the whole grammar under the reading rule."""

    def __init__(self, grammar=None):
        g = self.grammar = grammar or parse_berp()
        rules = g['rules']
        nfa = self.nfa = NFA()
        s0 = nfa.new()
        end = build(nfa, rules, ('rule', g['order'][0]), s0)
        fin = nfa.new()
        nfa.t(end, 'EOF', fin)
        self.initial = nfa.closure({s0})
        self.final = fin
        self.ignored = set(g['ignored'])
        self._cache = {}
        # per-node-rule automata for derivation checking
        self.node_rules = {n for n, r in rules.items() if r['node']}
        self.rule_aut = {}
        for n in self.node_rules:
            a = NFA()
            b0 = a.new()
            e = build(a, rules, rules[n]['rhs'], b0, opaque=self.node_rules)
            self.rule_aut[n] = (a, a.closure({b0}), e)

    def read_as(self, S, k):
        """How a line of own kind k is read in state S: a terminal name, 'skip', or None (unexpected)."""
        E = self.nfa.expected(S)
        if k in E:
            return k
        if k == 'EOF':
            return None
        if k == 'Language' and 'Comment' in E:
            return 'Comment'
        if 'Other' in E:
            return 'Other'
        if k in ('Comment', 'Empty', 'Language'):
            return 'skip'
        return None

    def step(self, S, k):
        key = (S, k)
        r = self._cache.get(key, 0)
        if r != 0:
            return r
        if S is None:
            r = None
        else:
            how = self.read_as(S, k)
            if how is None:
                r = None
            elif how == 'skip':
                r = S
            else:
                r = self.nfa.move(S, how)
        self._cache[key] = r
        return r

    def expected(self, S):
        return self.nfa.expected(S)

    def accepts(self, kinds):
        S = self.initial
        for k in kinds:
            S = self.step(S, k)
            if S is None:
                return False
        return self.step(S, 'EOF') is not None

    def reachable(self):
        """BFS; returns {state: witness kind sequence (shortest, in KINDS order)} and #transitions."""
        seen = {self.initial: ()}
        order = [self.initial]
        trans = 0
        i = 0
        while i < len(order):
            S = order[i]
            i += 1
            for k in ALL:
                T = self.step(S, k)
                if T is None:
                    continue
                trans += 1
                if k != 'EOF' and T not in seen:
                    seen[T] = seen[S] + (k,)
                    order.append(T)
        return seen, trans

    # -- derivations ---------------------------------------------------------
    def rule_accepts(self, rule, children):
        """children: sequence of terminal kinds and '@Rule' symbols.  Ignored tokens (Comment, Empty)
        may be absorbed anywhere."""
        a, S, end = self.rule_aut[rule]
        for c in children:
            T = a.move(S, c)
            if not T:
                if c in self.ignored:
                    continue
                return False
            S = T | (S if c in self.ignored else frozenset())
        return end in S

    def check_derivation(self, events):
        """events: ('s', rule) / ('e', rule) / ('b', kind, ...) as received by the builder.
        Returns None if the stream is a derivation of the grammar, else a message."""
        stack = [('ROOT', [])]
        for e in events:
            if e[0] == 's':
                stack.append((e[1], []))
            elif e[0] == 'e':
                if len(stack) < 2:
                    return 'end_rule(%s) with no open rule' % e[1]
                r, ch = stack.pop()
                if r != e[1]:
                    return 'end_rule(%s) closes open rule %s' % (e[1], r)
                if r in self.node_rules:
                    if not self.rule_accepts(r, ch):
                        return 'children of %s are not a right-hand side of the grammar: %s' % (r, ch)
                    stack[-1][1].append('@' + r)
                else:
                    return 'start/end for non-node rule %s' % r
            else:
                if e[1] == 'EOF':
                    continue
                if len(stack) < 2:
                    return 'token outside any rule'
                stack[-1][1].append(e[1])
        if len(stack) != 1:
            return 'unclosed rules: %s' % [s[0] for s in stack[1:]]
        if stack[0][1] != ['@' + self.grammar['order'][0]]:
            return 'root is %s' % stack[0][1]
        return None
