"""E9 - structural validator for Cucumber Messages envelopes (source, gherkinDocument, pickle, parseError).

No schema file ships in the repository, so the validator is hand-written from the message definitions and is itself
validated against every expected *.ndjson line of the shared acceptance corpus (selftest)."""
from __future__ import annotations

import glob
import json
import os

from . import core

STR, INT, LIST = 'str', 'int', 'list'
KEYWORD_TYPES = {'Unknown', 'Context', 'Action', 'Outcome', 'Conjunction'}
PICKLE_STEP_TYPES = {'Unknown', 'Context', 'Action', 'Outcome'}
MEDIA_TYPES = {'text/x.cucumber.gherkin+plain', 'text/x.cucumber.gherkin+markdown'}


class Bad(Exception):
    pass


def _is(v, t, path):
    if t == STR:
        if not isinstance(v, str):
            raise Bad('%s: expected a string, got %r' % (path, v))
    elif t == INT:
        if not isinstance(v, int) or isinstance(v, bool):
            raise Bad('%s: expected an integer, got %r' % (path, v))


def obj(v, path, required, optional=()):
    """required/optional: {key: validator}"""
    if not isinstance(v, dict):
        raise Bad('%s: expected an object, got %r' % (path, v))
    for k in required:
        if k not in v:
            raise Bad('%s: required field %r missing' % (path, k))
    for k, x in v.items():
        if x is None:
            raise Bad('%s/%s: null (absent optional fields must be omitted)' % (path, k))
        f = required.get(k) or dict(optional).get(k)
        if f is None:
            raise Bad('%s: unknown field %r' % (path, k))
        f(x, path + '/' + k)


def s(v, p):
    _is(v, STR, p)


def i(v, p):
    _is(v, INT, p)


def lst(f):
    def g(v, p):
        if not isinstance(v, list):
            raise Bad('%s: expected a list, got %r' % (p, v))
        for n, x in enumerate(v):
            f(x, '%s/%d' % (p, n))
    return g


def enum(values):
    def g(v, p):
        if v not in values:
            raise Bad('%s: %r is not one of %s' % (p, v, sorted(values)))
    return g


def location(v, p):
    obj(v, p, {'line': i}, {'column': i})
    if v['line'] < 1 or v.get('column', 1) < 1:
        raise Bad('%s: non-positive position %r' % (p, v))


def tag(v, p):
    obj(v, p, {'location': location, 'name': s, 'id': s})


def cell(v, p):
    obj(v, p, {'location': location, 'value': s})


def row(v, p):
    obj(v, p, {'location': location, 'cells': lst(cell), 'id': s})


def docstring(v, p):
    obj(v, p, {'location': location, 'content': s, 'delimiter': s}, {'mediaType': s})


def datatable(v, p):
    obj(v, p, {'location': location, 'rows': lst(row)})


def step(v, p):
    obj(v, p, {'location': location, 'keyword': s, 'text': s, 'id': s}, {'keywordType': enum(KEYWORD_TYPES), 'docString': docstring, 'dataTable': datatable})
    if 'docString' in v and 'dataTable' in v:
        raise Bad('%s: both docString and dataTable' % p)


def background(v, p):
    obj(v, p, {'location': location, 'keyword': s, 'name': s, 'description': s, 'steps': lst(step), 'id': s})


def examples(v, p):
    obj(v, p, {'location': location, 'tags': lst(tag), 'keyword': s, 'name': s, 'description': s, 'tableBody': lst(row), 'id': s}, {'tableHeader': row})


def scenario(v, p):
    obj(v, p, {'location': location, 'tags': lst(tag), 'keyword': s, 'name': s, 'description': s, 'steps': lst(step), 'examples': lst(examples), 'id': s})


def one_of(fields):
    def g(v, p):
        if not isinstance(v, dict) or len(v) != 1 or next(iter(v)) not in fields:
            raise Bad('%s: expected exactly one of %s, got %r' % (p, sorted(fields), list(v) if isinstance(v, dict) else v))
        k = next(iter(v))
        if v[k] is None:
            raise Bad('%s/%s: null' % (p, k))
        fields[k](v[k], p + '/' + k)
    return g


def rule(v, p):
    obj(v, p, {'location': location, 'tags': lst(tag), 'keyword': s, 'name': s, 'description': s,
               'children': lst(one_of({'background': background, 'scenario': scenario})), 'id': s})


def feature(v, p):
    obj(v, p, {'location': location, 'tags': lst(tag), 'language': s, 'keyword': s, 'name': s, 'description': s,
               'children': lst(one_of({'background': background, 'scenario': scenario, 'rule': rule}))})


def comment(v, p):
    obj(v, p, {'location': location, 'text': s})


def gherkin_document(v, p):
    obj(v, p, {'comments': lst(comment)}, {'uri': s, 'feature': feature})


def pickle_tag(v, p):
    obj(v, p, {'name': s, 'astNodeId': s})


def pickle_table(v, p):
    obj(v, p, {'rows': lst(lambda r, q: obj(r, q, {'cells': lst(lambda c, z: obj(c, z, {'value': s}))}))})


def pickle_doc(v, p):
    obj(v, p, {'content': s}, {'mediaType': s})


def pickle_arg(v, p):
    obj(v, p, {}, {'docString': pickle_doc, 'dataTable': pickle_table})
    if len(v) != 1:
        raise Bad('%s: argument must hold exactly one of docString / dataTable' % p)


def pickle_step(v, p):
    obj(v, p, {'astNodeIds': lst(s), 'id': s, 'text': s}, {'type': enum(PICKLE_STEP_TYPES), 'argument': pickle_arg})
    if not v['astNodeIds']:
        raise Bad('%s: empty astNodeIds' % p)


def pickle(v, p):
    obj(v, p, {'id': s, 'uri': s, 'name': s, 'language': s, 'steps': lst(pickle_step), 'tags': lst(pickle_tag), 'astNodeIds': lst(s)})
    if not v['astNodeIds']:
        raise Bad('%s: empty astNodeIds' % p)


def source(v, p):
    obj(v, p, {'uri': s, 'data': s, 'mediaType': enum(MEDIA_TYPES)})


def parse_error(v, p):
    obj(v, p, {'source': lambda x, q: obj(x, q, {}, {'uri': s, 'location': location}), 'message': s})


ENVELOPE = {'source': source, 'gherkinDocument': gherkin_document, 'pickle': pickle, 'parseError': parse_error}


def validate(envelope):
    """Returns None if the envelope has the prescribed shape, else a message."""
    try:
        one_of(ENVELOPE)(envelope, '')
        json.dumps(envelope)
    except Bad as e:
        return str(e)
    except (TypeError, ValueError) as e:
        return 'not JSON-serialisable: %s' % e
    return None


def selftest():
    problems = []
    n = 0
    for f in sorted(glob.glob(os.path.join(core.REPO, 'testdata/*/*.ndjson'))):
        if '.feature.md.' in f:
            continue        # Markdown expectations are produced by the JavaScript implementation only
        for ln in open(f, encoding='utf8'):
            if ln.strip():
                n += 1
                m = validate(json.loads(ln))
                if m:
                    problems.append('%s: %s' % (os.path.basename(f), m))
    if n < 250:
        problems.append('only %d corpus envelopes found' % n)
    return problems, n
