"""E5 enumerators over document models.

structure(N)      every document model of <= N lines built from the grammar's productions (unique names so that any
                  misplacement shows), sharded by enumeration index
deviations(k)     every document that differs from one of the structure-covering base documents in <= k slots,
                  each slot ranging over its complete variant alphabet (names, texts, tags, cells, keywords,
                  description shapes, indentation, padding, line ends)
"""
from __future__ import annotations

import copy
import itertools

from . import core
from .core import Acc, worker
from . import docmodel as M
from .docmodel import B, C, T

# ---------------------------------------------------------------------------
# structure, depth-bounded
# ---------------------------------------------------------------------------
DESC_SHAPES = [
    [], [T('d')], [C('#c')], [B('')],
    [T('d'), T('e')], [T('d'), C('#c')], [C('#c'), T('d')], [B(''), T('d')], [T('d'), B('')], [C('#c'), B('')], [B(''), C('#c')], [B(''), B('')],
    [C('#c'), C('#d')],
]
NOISE = [[], [C('#n')], [B('')]]


def cost_desc(d):
    return len(d)


def gen_desc(budget):
    for d in DESC_SHAPES:
        if len(d) <= budget:
            yield d, len(d)


def gen_noise(budget):
    for n in NOISE:
        if len(n) <= budget:
            yield n, len(n)


def gen_tags(budget):
    yield [], 0
    if budget >= 1:
        yield [M.tagline(['@t'])], 1
        yield [M.tagline(['@t', '@u'])], 1
    if budget >= 2:
        yield [M.tagline(['@t']), M.tagline(['@u'])], 2
    if budget >= 3:
        yield [M.tagline(['@t']), M.tagline(['@u'], pre=[C('#n')])], 3
        yield [M.tagline(['@t']), M.tagline(['@u'], pre=[B('')])], 3


def gen_arg(budget):
    yield None, 0
    if budget >= 1:
        yield M.table([['a']]), 1
    if budget >= 2:
        yield M.table([['a', 'b'], ['c', 'd']]), 2
        yield M.doc([]), 2
        yield M.doc([], delimiter='```', media='m'), 2
    if budget >= 3:
        yield M.table([['a'], {'cells': ['b'], 'pre': [C('#n')]}]), 3
        yield M.doc(['x']), 3
        yield M.doc(['Given y'], delimiter='```'), 3


def gen_step(budget):
    if budget < 1:
        return
    for noise, c0 in gen_noise(budget - 1):
        for role in ('given', 'and'):
            for arg, c1 in gen_arg(budget - 1 - c0):
                if c0 + c1 + 1 <= budget:
                    yield M.step('g', role=role, arg=arg, pre=noise), 1 + c0 + c1


def gen_list(gen_item, budget, maxn):
    """All lists of <= maxn items with total cost <= budget."""
    yield [], 0
    if maxn == 0 or budget <= 0:
        return
    for item, c in gen_item(budget):
        if c > budget:
            continue
        for rest, c2 in gen_list(gen_item, budget - c, maxn - 1):
            yield [item] + rest, c + c2


def gen_table(budget):
    yield None, 0
    if budget >= 1:
        yield [['a']], 1
    if budget >= 2:
        yield [['a'], ['1']], 2
        yield [['a', 'b'], ['1', '2']], 2
    if budget >= 3:
        yield [['a'], ['1'], ['2']], 3


def gen_examples(budget):
    if budget < 1:
        return
    for noise, c0 in gen_noise(budget - 1):
        for tags, c1 in gen_tags(budget - 1 - c0):
            for desc, c2 in gen_desc(budget - 1 - c0 - c1):
                for tab, c3 in gen_table(budget - 1 - c0 - c1 - c2):
                    c = 1 + c0 + c1 + c2 + c3
                    if c <= budget:
                        yield M.examples('e', tab, tags=tags, desc=desc, pre=noise), c


def gen_scenario(budget):
    if budget < 1:
        return
    for noise, c0 in gen_noise(budget - 1):
        for tags, c1 in gen_tags(budget - 1 - c0):
            for desc, c2 in gen_desc(budget - 1 - c0 - c1):
                b3 = budget - 1 - c0 - c1 - c2
                for steps, c3 in gen_list(gen_step, b3, 3):
                    yield M.scenario('s', steps, [], tags=tags, desc=desc, pre=noise), 1 + c0 + c1 + c2 + c3
                    for exs, c4 in gen_list(gen_examples, b3 - c3, 2):
                        if exs:
                            yield M.scenario('s', steps, exs, tags=tags, desc=desc, pre=noise, outline=True), 1 + c0 + c1 + c2 + c3 + c4


def gen_background(budget):
    if budget < 1:
        return
    for noise, c0 in gen_noise(budget - 1):
        for desc, c2 in gen_desc(budget - 1 - c0):
            for steps, c3 in gen_list(gen_step, budget - 1 - c0 - c2, 2):
                yield M.background('b', steps, desc=desc, pre=noise), 1 + c0 + c2 + c3


def gen_opt(gen_item, budget):
    yield None, 0
    yield from gen_item(budget)


def gen_rule(budget):
    if budget < 1:
        return
    for noise, c0 in gen_noise(budget - 1):
        for tags, c1 in gen_tags(budget - 1 - c0):
            for desc, c2 in gen_desc(budget - 1 - c0 - c1):
                b3 = budget - 1 - c0 - c1 - c2
                for bg, c3 in gen_opt(gen_background, b3):
                    for scs, c4 in gen_list(gen_scenario, b3 - c3, 3):
                        yield M.rule('r', ([bg] if bg else []) + scs, tags=tags, desc=desc, pre=noise), 1 + c0 + c1 + c2 + c3 + c4


def gen_feature(budget, shard=0, nshards=1, inner=0, ninner=1):
    """yields (feature model or None, trailer).  Sharding is on the outer loops (language x noise x tags x description), so a
    shard does not pay for enumerating the others' documents."""
    if shard == 0 and inner == 0:
        yield None, []
        for n in ([C('#n')], [B('')], [B(''), C('#n')]):
            if len(n) <= budget:
                yield None, n
    if budget < 1:
        return
    outer = 0
    for lang in (None, 'fr'):
        c_l = 1 if lang else 0
        header = [('language', '#language: fr')] if lang else []
        for noise, c0 in gen_noise(budget - 1 - c_l):
            for tags, c1 in gen_tags(budget - 1 - c_l - c0):
                for desc, c2 in gen_desc(budget - 1 - c_l - c0 - c1):
                    b3 = budget - 1 - c_l - c0 - c1 - c2
                    for bg, c3 in gen_opt(gen_background, b3):
                        outer += 1
                        if outer % nshards != shard:
                            continue
                        si = 0
                        for scs, c4 in gen_list(gen_scenario, b3 - c3, 3):
                            si += 1
                            if si % ninner != inner:
                                continue
                            for rules, c5 in gen_list(gen_rule, b3 - c3 - c4, 2):
                                f = M.feature('f', ([bg] if bg else []) + scs + rules, tags=tags, desc=desc, language=lang or 'en',
                                              header=header, pre=noise)
                                rest = b3 - c3 - c4 - c5
                                yield f, []
                                if rest >= 1:
                                    yield f, [C('#z')]
                                    yield f, [B('')]


def label(model):
    """Give every name/text/tag/cell a unique value so that misplaced elements are visible."""
    n = [0]

    def nxt(p):
        n[0] += 1
        return '%s%d' % (p, n[0])

    def tags(tl):
        for t in tl:
            t['names'] = [nxt('@t') for _ in t['names']]

    def desc(d):
        return [(k, (nxt('  d') if k == 'text' else (nxt('  # c') if k == 'comment' else x))) for k, x in d]

    def noise(p):
        return [(k, (nxt('# n') if k == 'comment' else x)) for k, x in p]

    def rows(rs):
        for r in rs:
            r['cells'] = [nxt('v') for _ in r['cells']]
            r['pre'] = noise(r.get('pre', []))

    def stepf(s):
        s['pre'] = noise(s['pre'])
        s['text'] = nxt('g')
        if s['arg']:
            s['arg']['pre'] = noise(s['arg'].get('pre', [])) if 'pre' in s['arg'] else []
            if s['arg']['t'] == 'table':
                rows(s['arg']['rows'])
            else:
                s['arg']['lines'] = [nxt(l if isinstance(l, str) else l[1]) for l in s['arg']['lines']]

    def node(x):
        x['pre'] = noise(x['pre'])
        x['name'] = nxt(x['name'])
        x['desc'] = desc(x['desc'])
        if 'tags' in x:
            for t in x['tags']:
                t['pre'] = noise(t['pre'])
            tags(x['tags'])
        for s in x.get('steps', []):
            stepf(s)
        for e in x.get('examples', []):
            node(e)
        if x.get('table'):
            x['table'] = [{'cells': [nxt('v') for _ in r], 'pre': []} for r in x['table']]
        for c in x.get('children', []):
            node(c)
    model = copy.deepcopy(model)
    if model is not None:
        node(model)
    return model


NINNER = 8


def structure(budget, shard, nshards):
    """shard in 0..nshards-1; nshards must be a multiple of NINNER: outer shards x inner shards."""
    nouter = max(1, nshards // NINNER)
    ninner = nshards // nouter
    for f, trailer in gen_feature(budget, shard // ninner, nouter, shard % ninner, ninner):
        yield label(f), trailer


# ---------------------------------------------------------------------------
# base documents and deviations
# ---------------------------------------------------------------------------
def base_documents():
    s = M.step
    docs = []
    docs.append(M.feature('f', [M.scenario('s', [s('g'), s('w', role='when'), s('t', role='then'), s('a', role='and'), s('b', role='but'), s('x', kw='* ')])]))
    docs.append(M.feature('f', [M.background('bg', [s('b1'), s('b2', role='and')], desc=[T('  bd')]),
                                M.scenario('s1', [s('g1')], tags=[M.tagline(['@s1', '@s2'])]),
                                M.scenario('s2', [s('g2', arg=M.table([['a', 'b'], ['', 'c d']]))], pre=[B('')])],
                          tags=[M.tagline(['@f1']), M.tagline(['@f2', '@f3'])], desc=[T('  fd1'), T(''), T('  fd2')]))
    docs.append(M.feature('f', [M.scenario('o <a>', [s('g <a>', arg=M.table([['<a>', 'x']])), s('d', role='and', arg=M.doc(['c <b>', '', '  ind'], media='m<a>'))],
                                           [M.examples('e1', [['a', 'b'], ['1', '2'], ['3', '4']], tags=[M.tagline(['@e1'])], desc=[T('    ed')]),
                                            M.examples('e2', [['a', 'b']], pre=[B(''), C('  # c')]),
                                            M.examples('e3', None, tags=[M.tagline(['@e3a']), M.tagline(['@e3b'], pre=[C('#c2'), B('')])])],
                                           tags=[M.tagline(['@o'])], outline=True)]))
    docs.append(M.feature('f', [M.background('', [s('fb')]),
                                M.scenario('s0', [s('g0')]),
                                M.rule('r1', [M.background('', [s('rb')]), M.scenario('s1', [s('g1')], tags=[M.tagline(['@s1'])]), M.scenario('s2', [s('g2', role='when')])],
                                       tags=[M.tagline(['@r1'])], desc=[T('    rd')]),
                                M.rule('r2', [M.scenario('s3', [s('g3', arg=M.doc(['x'], delimiter='```'))])], pre=[C('# before rule'), B('')]),
                                M.rule('r3', [])],
                          tags=[M.tagline(['@f'])]))
    docs.append(M.feature('f', [M.scenario('s', [s('g', arg=M.doc(['Feature: x', '  Scenario: y', '@t', '# c', '| a |', '```', '\\"\\"\\"', ('raw', ' z'), ''], media='json')),
                                                 s('h', role='when', arg=M.doc([], delimiter='```'))], desc=[C('  # only comment')])]))
    docs.append(M.feature('fr', [M.background('', [s('b')]), M.scenario('s', [s('g'), s('q', role='and')]),
                                 M.scenario('o', [s('<a>', role='when')], [M.examples('', [['a'], ['1']])], outline=True)],
                          language='fr', header=[('comment', '# first'), ('language', '# language: fr'), ('blank', '')]))
    docs.append(M.feature('', []))
    docs.append(M.feature('f', [M.scenario('', [], desc=[B(''), B('   '), T('text'), B(' '), T('more  '), B('')])], desc=[B(''), C('# c1'), C('# c2')]))
    docs.append(M.feature('f', [M.scenario('s', [s('g', arg=M.table([['a'], {'cells': ['b'], 'pre': [C('# in table'), B('')]}])), s('h', pre=[B(''), C('#c')])],
                                           tags=[M.tagline(['@a'], trailing=' #comment'), M.tagline(['@b', '@c'], sep='  \t')])]))
    # identical row text at different indentation / in different tables (anything cached by line text shows here)
    docs.append(M.feature('f', [M.scenario('s1', [s('g', arg=M.table([['a', 'b'], ['a', 'b']]))]),
                                M.scenario('o <a>', [s('h <a>', arg=M.table([['a', 'b']]))], [M.examples('', [['a', 'b'], ['a', 'b']])], outline=True),
                                M.rule('r', [M.background('', [s('rb', arg=M.table([['a', 'b']]))]), M.scenario('s2', [s('g', arg=M.table([['a', 'b'], ['b', 'a']]))])])]))
    # a doc string followed, later in the same document, by deeply indented descriptions and by another doc string of the other kind
    docs.append(M.feature('f', [M.scenario('s1', [s('g', arg=M.doc(['x', '\\"\\"\\"', '\\`\\`\\`']))], desc=[T('      deep one')]),
                                M.scenario('s2', [s('h', arg=M.doc(['\\`\\`\\`', '\\"\\"\\"', 'y'], delimiter='```'))], desc=[T('          deeper two'), T(' shallow')]),
                                M.rule('r', [M.scenario('o', [s('i', arg=M.doc(['z']))], [M.examples('e', [['a'], ['1']], desc=[T('            deepest')])], outline=True)],
                                       desc=[T('        rule desc')])]))
    # backgrounds + outline with two tables of two rows (ids of background pickle steps, per-row state)
    docs.append(M.feature('f', [M.background('', [s('b1'), s('b2', role='and')]),
                                M.scenario('o <a> <b>', [s('a <a>', role='and'), s('w <b>', role='when'), s('c', role='but')],
                                           [M.examples('e1', [['a', 'b'], ['1', '2'], ['3', '4']], tags=[M.tagline(['@e1'])]),
                                            M.examples('e2', [['b', 'a'], ['1', '2'], ['3', '4']])], tags=[M.tagline(['@o'])], outline=True),
                                M.rule('r', [M.background('', [s('rb', role='and')]),
                                             M.scenario('o2', [s('x', role='but')], [M.examples('', [['a'], ['1'], ['2']])], outline=True)])]))
    return docs


NAME_ALPHA = ['', 'x', 'a  b', 'ünï', '\U0001F600', '<p>', 'Scenario: y', '@t', '# h', '| c |', '"""', ':', ' lead', 'Given x', '\\n']
TEXT_ALPHA = ['', 'x', 'a  b', 'ünï \U0001F600', '<p>', 'Scenario: y', '@t #c', '| c |', '"""', ' two  ', '\\', 'And z', ':']
TAG_ALPHA = ['@', '@t', '@ünï', '@\U0001F600x', '@a#b', '@1', '@t-1:2', '@T"q']
CELL_ALPHA = ['', 'x', 'a b', 'ü', '\U0001F600', 'a|b', 'a\\b', 'l1\nl2', '<p>', '@t', '# c', 'Given x', '"""', '\\', '\n']
DESC_ALPHA = [T('escaped \\`\\`\\` and \\"\\"\\" in prose'), T('plain'), T('  indented  '), T('Examples: x'), T('* not a step'), T('\ttab'), T('ünï \U0001F600'), C('# comment'), C('   # ind comment'), B(''), B('  '),
              T('Scenario x'), T('"""'), T('| a |'), T('@tag'), T('Given x')]
DOC_ALPHA = ['plain', '  more', ('raw', ' less'), ('raw', ' less trailing  '), 'x = \\"\\"\\" mid \\`\\`\\` line', '', '   ', 'Feature: f', '@t', '# c', '| a |', '```', '"""x', '\\"\\"\\"', '\\`\\`\\`', 'trail  ']
INDENTS = [('', '', '', '', ''), ('', ' ', '  ', '   ', '    '), ('\t', '\t\t', '\t\t\t', '\t\t\t\t', '\t\t\t\t\t'), (' \t ', ' \t  ', '  \t   ', '      ', '        '),
           ('    ', '        ', '            ', '                ', '                    '), (' ', ' ', ' ', ' ', ' '), ('     ', '    ', '   ', '  ', ' ')]
LAYOUT_SLOTS = [
    ('indent', INDENTS),
    ('eol', ['\r\n']),
    ('final_eol', [False]),
    ('cell_pad', [('', ''), ('  ', ''), ('', '   '), ('\t', ' '), (' ', ' ')]),
    ('trail', [' ', '\t', '  \t ']),
    ('name_sep', ['', '   ', '\t']),
    ('kw_index', [1, 2, 3]),
]


def model_slots(m):
    """List of (path, alphabet): path is a tuple of keys/indices into the model."""
    out = []

    def node(x, p):
        out.append((p + ('name',), NAME_ALPHA))
        for i, d in enumerate(x['desc']):
            out.append((p + ('desc', i), DESC_ALPHA))
        out.append((p + ('desc', 'append'), DESC_ALPHA))
        for i, t in enumerate(x.get('tags', [])):
            for j, _ in enumerate(t['names']):
                out.append((p + ('tags', i, 'names', j), TAG_ALPHA))
            out.append((p + ('tags', i, 'sep'), [' ', '  ', '\t', ' \t ']))
            out.append((p + ('tags', i, 'trailing'), ['', ' ', ' #c', '\t# c @x']))
        for i, s in enumerate(x.get('steps', [])):
            sp = p + ('steps', i)
            out.append((sp + ('text',), TEXT_ALPHA))
            out.append((sp + ('kw',), ['Given ', 'When ', 'Then ', 'And ', 'But ', '* ']))
            if s['arg'] and s['arg']['t'] == 'table':
                for ri, r in enumerate(s['arg']['rows']):
                    for ci, _ in enumerate(r['cells']):
                        out.append((sp + ('arg', 'rows', ri, 'cells', ci), CELL_ALPHA))
            if s['arg'] and s['arg']['t'] == 'doc':
                for li, _ in enumerate(s['arg']['lines']):
                    out.append((sp + ('arg', 'lines', li), DOC_ALPHA))
                out.append((sp + ('arg', 'lines', 'append'), DOC_ALPHA))
                out.append((sp + ('arg', 'media'), ['', 'json', ' a b ', 'é\U0001F600', '"', '``']))
                out.append((sp + ('arg', 'delimiter'), ['"""', '```']))
        for i, e in enumerate(x.get('examples', [])):
            node(e, p + ('examples', i))
        if x.get('table'):
            for ri, r in enumerate(x['table']):
                for ci, _ in enumerate(r):
                    out.append((p + ('table', ri, ci), CELL_ALPHA))
        for i, c in enumerate(x.get('children', [])):
            node(c, p + ('children', i))
    if m is not None:
        node(m, ())
    return out


def apply_slot(m, path, value):
    x = m
    for k in path[:-1]:
        x = x[k]
    last = path[-1]
    if last == 'append':
        x.append(value)
    else:
        x[last] = value


def variants(base, k, fr=False):
    """All (model, layout kwargs) differing from the base in <= k slots."""
    mslots = [('m', p, a) for p, a in model_slots(base)]
    lslots = [('l', n, a) for n, a in LAYOUT_SLOTS]
    slots = mslots + lslots
    yield base, {}
    for depth in range(1, k + 1):
        for combo in itertools.combinations(range(len(slots)), depth):
            alph = [slots[i][2] for i in combo]
            for vals in itertools.product(*alph):
                m = copy.deepcopy(base)
                lay = {}
                ok = True
                # appends last so that indices stay valid
                for i, v in sorted(zip(combo, vals), key=lambda z: slots[z[0]][1][-1] == 'append' if slots[z[0]][0] == 'm' else False):
                    kind, p, _ = slots[i]
                    if kind == 'm':
                        apply_slot(m, p, v)
                    else:
                        lay[p] = v
                yield m, lay


def n_variants(base, k):
    sizes = [len(a) for _, a in model_slots(base)] + [len(a) for _, a in LAYOUT_SLOTS]
    total = 1
    if k >= 1:
        total += sum(sizes)
    if k >= 2:
        s = sum(sizes)
        total += (s * s - sum(x * x for x in sizes)) // 2
    return total


# ---------------------------------------------------------------------------
# job runners shared by C03 / C04 / C11 / C06-C08
# ---------------------------------------------------------------------------
@worker
def job_structure(module, budget, shard, nshards):
    import importlib
    mod = importlib.import_module(module)
    acc = Acc()
    last = None
    for f, trailer in structure(budget, shard, nshards):
        text, exp, r = M.render(f, trailer=trailer)
        if not M.roles_ok(r):
            acc.counters['models_discarded_role_mismatch'] += 1
            continue
        mod.check_model(text, exp, r, acc, {'kind': 'text', 'text': text, 'family': 'structure'})
        last = text
    if last is not None:
        acc.sample({'family': 'structure<=%d' % budget, 'text': last})
    return acc


@worker
def job_variants(module, base_index, k, shard, nshards):
    import importlib
    mod = importlib.import_module(module)
    acc = Acc()
    base = base_documents()[base_index]
    last = None
    for i, (m, lay) in enumerate(variants(base, k)):
        if i % nshards != shard:
            continue
        dialect = m['language'] or 'en'
        layout = M.Layout(**lay)
        try:
            text, exp, r = M.render(m, layout)
        except (StopIteration, KeyError, IndexError):
            acc.counters['variants_not_renderable'] += 1
            continue
        if not M.roles_ok(r):
            acc.counters['models_discarded_role_mismatch'] += 1
            continue
        mod.check_model(text, exp, r, acc, {'kind': 'text', 'text': text, 'family': 'deviation', 'base': base_index})
        last = text
    if last is not None:
        acc.sample({'family': 'deviations k<=%d of base %d' % (k, base_index), 'text': last})
    return acc


# ---------------------------------------------------------------------------
# repetition: one repeatable construct n = 1..12 times (distinct labels), everything else minimal - behaviour that only changes
# from the 3rd / 4th / 10th element on
# ---------------------------------------------------------------------------
REPEATABLE = ['steps', 'background-steps', 'scenarios', 'rule-scenarios', 'rules', 'examples-tables', 'example-rows', 'header-cells', 'table-rows',
              'tags-on-line', 'tag-lines', 'description-lines', 'doc-lines', 'comments', 'outlines-same-headers', 'mixed-arguments']


def repetition_documents(max_n=12):
    s = M.step
    TL = M.tagline
    for what in REPEATABLE:
        for n in range(1, max_n + 1):
            r = range(n)
            roles = ['given', 'when', 'then', 'and', 'but']
            if what == 'steps':
                f = M.feature('f', [M.scenario('s', [s('t%d' % i, role=roles[i % 5]) for i in r])])
            elif what == 'background-steps':
                f = M.feature('f', [M.background('', [s('b%d' % i, role=roles[(i + 3) % 5]) for i in r]), M.scenario('s', [s('own', role='and')]),
                                    M.scenario('o <a>', [s('x <a>', role='but')], [M.examples('', [['a'], ['1']])], outline=True)])
            elif what == 'scenarios':
                f = M.feature('f', [M.scenario('s%d' % i, [s('g%d' % i)], tags=[TL(['@s%d' % i])]) for i in r])
            elif what == 'rule-scenarios':
                f = M.feature('f', [M.background('', [s('fb')]), M.rule('r', [M.background('', [s('rb', role='and')])] + [M.scenario('s%d' % i, [s('g%d' % i, role=roles[(i + 1) % 5])]) for i in r], tags=[TL(['@r'])])])
            elif what == 'rules':
                f = M.feature('f', [M.rule('r%d' % i, ([M.background('', [s('b%d' % i)])] if i % 2 else []) + [M.scenario('s%d' % i, [s('g%d' % i, role='and')])], tags=[TL(['@r%d' % i])] if i % 3 else []) for i in r], tags=[TL(['@f'])])
            elif what == 'examples-tables':
                f = M.feature('f', [M.scenario('o <a>', [s('x <a>')], [M.examples('e%d' % i, [['a'], ['v%d' % i]], tags=[TL(['@e%d' % i])]) for i in r], outline=True)])
            elif what == 'example-rows':
                f = M.feature('f', [M.scenario('o <a> <b>', [s('x <a>', arg=M.table([['<b>']]))], [M.examples('e', [['a', 'b']] + [['v%d' % i, 'w%d' % i] for i in r])], outline=True)])
            elif what == 'header-cells':
                f = M.feature('f', [M.scenario('o ' + ' '.join('<h%d>' % i for i in r), [s('x ' + ''.join('<h%d>' % i for i in reversed(r)))],
                                               [M.examples('e', [['h%d' % i for i in r], ['v%d' % i for i in r]])], outline=True)])
            elif what == 'table-rows':
                f = M.feature('f', [M.scenario('s', [s('g', arg=M.table([['c%d' % i, 'd%d' % i] for i in r])), s('h', role='when', arg=M.table([['only']]))])])
            elif what == 'tags-on-line':
                f = M.feature('f', [M.scenario('s', [s('g')], tags=[TL(['@t%d' % i for i in r])])], tags=[TL(['@f%d' % i for i in r])])
            elif what == 'tag-lines':
                f = M.feature('f', [M.scenario('o <a>', [s('g <a>')], [M.examples('e', [['a'], ['1']], tags=[TL(['@e%d' % i]) for i in r])], tags=[TL(['@t%d' % i]) for i in r], outline=True)])
            elif what == 'description-lines':
                f = M.feature('f', [M.scenario('s', [s('g')], desc=[T('    line %d' % i) if i % 3 else B('') for i in r] + [T('    last')])], desc=[T('  f line %d' % i) for i in r])
            elif what == 'doc-lines':
                f = M.feature('f', [M.scenario('s', [s('g', arg=M.doc(['l%d' % i if i % 4 else '' for i in r])), s('after', role='and')])])
            elif what == 'comments':
                f = M.feature('f', [M.scenario('s', [s('g', pre=[C('    # c%d' % i) for i in r])], pre=[C('# top %d' % i) for i in r])])
            elif what == 'outlines-same-headers':
                f = M.feature('f', [M.scenario('o%d <a>' % i, [s('x%d <a>' % i)], [M.examples('e', [['a'], ['v%d' % i]])], outline=True) for i in r])
            else:   # mixed-arguments: doc strings and tables alternating over the steps of a background and a scenario
                def arg(i):
                    return M.doc(['d%d <a>' % i], media='m%d' % i if i % 2 else '') if i % 3 == 0 else M.table([['t%d' % i, '<a>']]) if i % 3 == 1 else None
                f = M.feature('f', [M.background('', [s('b%d' % i, arg=arg(i)) for i in r]),
                                    M.scenario('o <a>', [s('s%d <a>' % i, role='and', arg=arg(i + 1)) for i in r], [M.examples('e', [['a'], ['1'], ['2']])], outline=True)])
            yield (what, n), f


@worker
def job_repetition(module, what_index):
    import importlib
    mod = importlib.import_module(module)
    acc = Acc()
    last = None
    for (what, n), f in repetition_documents():
        if what != REPEATABLE[what_index]:
            continue
        text, exp, r = M.render(f)
        if not M.roles_ok(r):
            acc.counters['models_discarded_role_mismatch'] += 1
            continue
        mod.check_model(text, exp, r, acc, {'kind': 'text', 'text': text, 'family': 'repetition', 'what': what, 'n': n})
        last = text
    if last is not None:
        acc.sample({'family': 'repetition of ' + REPEATABLE[what_index], 'text': last[:400]})
    return acc


@worker
def job_dialects(module, names):
    """A document with every construct in every dialect, as the default dialect and behind a language header, with the k-th keyword of every
    role for every k (title keywords; step keywords are the first non-'*' ones unless the model names them)."""
    import importlib
    mod = importlib.import_module(module)
    acc = Acc()
    s = M.step
    last = None
    for d in names:
        spec = M.DIALECTS[d]
        kmax = max(len(spec[r]) for r in ('feature', 'rule', 'background', 'scenario', 'scenarioOutline', 'examples'))
        allsteps = [k for r in ('given', 'when', 'then', 'and', 'but') for k in spec[r]]

        def safe(role):
            # a step keyword no other step keyword of the dialect is a proper prefix of (ht: 'Lè ' / 'Lè sa a '): the property C05 owns that rule
            ok = [k for k in spec[role] if k != '* ' and not any(o != k and k.startswith(o) for o in allsteps)]
            return ok[0] if ok else next(k for k in allsteps if k != '* ' and not any(o != k and k.startswith(o) for o in allsteps))
        for ki in range(kmax):
            for header in (False, True):
                f = M.feature('f', [M.background('b', [s('x', kw=safe('given'))]),
                                    M.rule('r', [M.background('', [s('y', kw=safe('and'))]), M.scenario('s', [s('z', kw=safe('when'))], tags=[M.tagline(['@t'])], desc=[T('    words')]),
                                                 M.scenario('o <a>', [s('w <a>', kw=safe('then'))], [M.examples('e', [['a'], ['1']], tags=[M.tagline(['@e'])])], outline=True)], tags=[M.tagline(['@r'])])],
                              language=d if header else None, header=[('language', '# language: ' + d)] if header else [])
                try:
                    text, exp, r = M.render(f, M.Layout(dialect=d, kw_index=ki))
                except (StopIteration, KeyError, IndexError):
                    acc.counters['variants_not_renderable'] += 1
                    continue
                if not M.roles_ok(r):
                    acc.counters['models_discarded_role_mismatch'] += 1
                    continue
                mod.check_model(text, exp, r, acc, {'kind': 'text', 'text': text, 'family': 'dialects', 'dialect': d, 'default': None if header else d})
                last = text
    if last is not None:
        acc.sample({'family': 'dialects', 'text': last[:400]})
    return acc


def run_families(ctx, module, n_quick, n_thorough, k2_bases_quick):
    ctx.level('one construct repeated 1..12 times', [job_repetition.job(module, i) for i in range(len(REPEATABLE))])
    names = sorted(M.DIALECTS)
    ctx.level('every construct in every dialect x k-th keyword of every role', [job_dialects.job(module, names[i:i + 5]) for i in range(0, len(names), 5)])
    ns = 16
    N = ctx.pick(n_quick, n_thorough)
    ctx.level('structure N<=%d' % N, [job_structure.job(module, N, s, 192) for s in range(192)])
    ctx.level('pairs of feature modules x arrangements x backgrounds', [job_pairs.job(module, s, ns) for s in range(ns)])
    nb = len(base_documents())
    ctx.level('deviations k<=1', [job_variants.job(module, b, 1, 0, 1) for b in range(nb)])
    bases = k2_bases_quick if ctx.quick else list(range(nb))
    ctx.level('deviations k<=2 (bases %s)' % bases, [job_variants.job(module, b, 2, s, ns) for b in bases for s in range(ns)])


def run_deep(ctx, module, n=8):
    """Thorough tier only, last level of a check: the next structure bound (about 4.1 million models for n = 8).  If the
    budget runs out the level is reported as not completed and the run is not called exhaustive."""
    if not ctx.quick:
        ctx.level('structure N<=%d' % n, [job_structure.job(module, n, s, 384) for s in range(384)])


# ---------------------------------------------------------------------------
# pairs of features: every ordered pair of "feature modules" in four arrangements x four backgrounds
# (realistic defects often need two constructs to meet: a doc string and a later description, a ragged table and a tag
#  run, a table-less Examples block before a real one, a background argument and an outline header ...)
# ---------------------------------------------------------------------------
def _modules():
    s = M.step
    TL = M.tagline
    mods = []
    mods.append(('plain', lambda: [M.scenario('plain', [s('g')])]))
    mods.append(('no-steps', lambda: [M.scenario('empty', [], tags=[TL(['@empty'])])]))
    mods.append(('description', lambda: [M.scenario('described', [s('g')], desc=[B(''), T('        deep text  '), C('   # inner'), T('\\`\\`\\` \\"\\"\\"'), B('  '), B('')])]))
    mods.append(('docstring-dq', lambda: [M.scenario('doc1', [s('g', arg=M.doc(['x', ('raw', ' less  '), '  more', '\\"\\"\\"', '\\`\\`\\`', ''], media='json')), s('after', role='and')])]))
    mods.append(('docstring-bt', lambda: [M.scenario('doc2', [s('g', arg=M.doc(['\\`\\`\\` mid \\"\\"\\"', '"""', '   '], delimiter='```'))])]))
    mods.append(('table-dups', lambda: [M.scenario('tab1', [s('g', arg=M.table([['a', 'b'], ['a', 'b'], ['', 'a|b']])), s('h', role='when', arg=M.table([['a', 'b']]))])]))
    mods.append(('outline', lambda: [M.scenario('out <a> <b>', [s('g <a>', arg=M.table([['<a>', '<b>', '<c>']])), s('d', role='and', arg=M.doc(['<a> <b>'], media='<b>'))],
                                                [M.examples('e', [['a', 'b'], ['1', '2'], ['3', '4']])], outline=True)]))
    mods.append(('outline-two-tables', lambda: [M.scenario('two <a>', [s('x <a> <b>', role='and')],
                                                           [M.examples('e1', [['a', 'b'], ['1', '2']], tags=[TL(['@e1', '@dup'])]), M.examples('e2', [['b', 'a'], ['1', '2'], ['2', '1']])],
                                                           tags=[TL(['@dup'])], outline=True)]))
    mods.append(('outline-tableless-first', lambda: [M.scenario('tl <a>', [s('x <a>')],
                                                                [M.examples('none', None, tags=[TL(['@none'])]), M.examples('hdr', [['a']], tags=[TL(['@hdr'])]),
                                                                 M.examples('real', [['a'], ['1'], ['2']])], outline=True)]))
    mods.append(('outline-zero-cells', lambda: [M.scenario('zero', [s('x')], [M.examples('z', [[], [], []])], outline=True)]))
    mods.append(('outline-dup-header', lambda: [M.scenario('dh <a>', [s('x <a>')], [M.examples('d', [['a', 'a', ''], ['1', '2', '3']])], outline=True)]))
    mods.append(('tags-two-lines', lambda: [M.scenario('tagged', [s('g')], tags=[TL(['@t1', '@t2'], sep='  '), TL(['@t1'], pre=[C('# between tags'), B('')], trailing=' #c')])]))
    mods.append(('conjunction-first', lambda: [M.scenario('conj', [s('a', role='and'), s('s', kw='* '), s('b', role='but'), s('w', role='when'), s('a2', role='and')]),
                                               M.scenario('conj-o', [s('b', role='but')], [M.examples('', [['a'], ['1'], ['2']])], outline=True)]))
    mods.append(('empty-texts', lambda: [M.scenario('', [s('', role='given'), s('', kw='* ')], [], desc=[])]))
    mods.append(('noise', lambda: [M.scenario('noisy', [s('g', pre=[B(''), C('# c1')]), s('h', role='then', pre=[C('#c2'), B('   ')])], pre=[C('# before scenario'), B('')])]))
    return mods


def _backgrounds():
    s = M.step
    return [
        ('none', lambda: None),
        ('one-step', lambda: M.background('bg', [s('b')])),
        ('args-with-placeholders', lambda: M.background('', [s('b <a>', arg=M.table([['<a>', '<b>']])), s('c', role='and', arg=M.doc(['<a>'], media='<b>'))], desc=[T('   bg text')])),
        ('and-first', lambda: M.background('', [s('x', role='and'), s('y', role='but')])),
    ]


def pair_documents(shard=0, nshards=1):
    mods = _modules()
    bgs = _backgrounds()
    idx = 0
    for (na, fa) in mods:
        for (nb, fb) in mods:
            for (nbg, fbg) in bgs:
                for arr in range(4):
                    idx += 1
                    if idx % nshards != shard:
                        continue
                    bg = fbg()
                    a, b = fa(), fb()
                    pre = [bg] if bg else []
                    if arr == 0:
                        f = M.feature('f', pre + a + b, tags=[M.tagline(['@f', '@dup'])])
                    elif arr == 1:
                        f = M.feature('f', pre + a + [M.rule('r', b, tags=[M.tagline(['@r'])])])
                    elif arr == 2:
                        rbg = fbg()
                        f = M.feature('f', [M.rule('r', ([rbg] if rbg else []) + a + b, desc=[T('      rule text')])], tags=[M.tagline(['@f'])])
                    else:
                        rbg = fbg()
                        f = M.feature('f', pre + [M.rule('r1', ([rbg] if rbg else []) + a, tags=[M.tagline(['@r1', '@dup'])]), M.rule('r2', b, tags=[M.tagline(['@r2'])])])
                    yield (na, nb, nbg, arr), f


@worker
def job_pairs(module, shard, nshards):
    import importlib
    mod = importlib.import_module(module)
    acc = Acc()
    last = None
    for key, f in pair_documents(shard, nshards):
        try:
            text, exp, r = M.render(f)
        except (StopIteration, KeyError, IndexError):
            acc.counters['variants_not_renderable'] += 1
            continue
        if not M.roles_ok(r):
            acc.counters['models_discarded_role_mismatch'] += 1
            continue
        mod.check_model(text, exp, r, acc, {'kind': 'text', 'text': text, 'family': 'pairs', 'pair': list(key[:3])})
        last = text
    if last is not None:
        acc.sample({'family': 'feature pairs', 'text': last})
    return acc
