"""Helpers for the compiler checks (C06-C11): run Compiler.compile on an AST dictionary of the parser's shape,
run the reference compiler on the same AST, project pickles onto the aspect a property speaks about."""
from __future__ import annotations

import copy

from . import core  # noqa: F401
from . import ref as R
from . import docmodel as M

from gherkin.pickles.compiler import Compiler
from gherkin.stream.id_generator import IdGenerator


def count_ids(o):
    n = 0
    if isinstance(o, dict):
        for k, v in o.items():
            if k == 'id':
                n += 1
            else:
                n += count_ids(v)
    elif isinstance(o, list):
        for v in o:
            n += count_ids(v)
    return n


def max_id(o):
    m = -1
    if isinstance(o, dict):
        for k, v in o.items():
            if k == 'id':
                m = max(m, int(v))
            else:
                m = max(m, max_id(v))
    elif isinstance(o, list):
        for v in o:
            m = max(m, max_id(v))
    return m


_REUSED = None


def generator_at(n):
    """A fresh IdGenerator whose next id is str(n) - reached through its public method only."""
    ig = IdGenerator()
    for _ in range(n):
        ig.get_next_id()
    return ig


def compile_reused(doc, uri='u'):
    """Compile with ONE long-lived Compiler per process (its id counter is set to where a fresh one would start):
    ('ok', pickles) or ('exc', text).  Documents reach it with ids restarting at 0, as they do when every file is
    parsed by its own Parser."""
    global _REUSED
    if _REUSED is None:
        _REUSED = Compiler(IdGenerator())
    d_in = copy.deepcopy(doc)
    d_in['uri'] = uri
    _REUSED.id_generator = generator_at(max_id(doc) + 1)
    try:
        return ('ok', _REUSED.compile(d_in))
    except Exception as e:  # noqa: BLE001
        return ('exc', '%s: %s' % (type(e).__name__, e))


def compile_json(doc, uri='u'):
    """Compile a document that went through JSON (as a consumer of the ndjson stream would hold it): same values, but none of
    its strings is the same object as a literal in the library, and every dictionary lists its keys alphabetically (as the golden ndjson files do).  ('ok', pickles) or ('exc', text)."""
    import json
    d_in = json.loads(json.dumps(doc, sort_keys=True))       # keys in another order than the builder's (location: column before line)
    d_in['uri'] = uri
    try:
        return ('ok', Compiler(generator_at(max_id(doc) + 1)).compile(d_in))
    except Exception as e:  # noqa: BLE001
        return ('exc', '%s: %s' % (type(e).__name__, e))


def compile_twice(doc, uri='u'):
    """The same document object compiled twice by one Compiler (ids restarted in between): the second result."""
    d_in = copy.deepcopy(doc)
    d_in['uri'] = uri
    start = max_id(doc) + 1
    try:
        c = Compiler(generator_at(start))
        c.compile(d_in)
        c.id_generator = generator_at(start)
        return ('ok', c.compile(d_in))
    except Exception as e:  # noqa: BLE001
        return ('exc', '%s: %s' % (type(e).__name__, e))


def routes(doc, got):
    """[(route name, result)] for a document: fresh compiler (already computed), long-lived compiler, JSON round trip."""
    return (('fresh compiler', got), ('compiler that compiled other documents before', compile_reused(doc)),
            ('document that went through JSON', compile_json(doc)),
            ('second compilation of the same document object by the same compiler', compile_twice(doc)))


def compile_both(doc, uri='u'):
    """doc: AST dict (without uri).  Returns (impl result, reference pickles, input copy, input after compile).
    impl result is ('ok', pickles) or ('exc', text)."""
    d_in = copy.deepcopy(doc)
    d_in['uri'] = uri
    snapshot = copy.deepcopy(d_in)
    start = max_id(doc) + 1
    ig = generator_at(start)
    try:
        got = ('ok', Compiler(ig).compile(d_in))
    except Exception as e:  # noqa: BLE001
        got = ('exc', '%s: %s' % (type(e).__name__, e))
    ids = R.IdGen()
    ids.n = start
    exp = R.ref_compile(copy.deepcopy(snapshot), uri, ids)
    return got, exp, snapshot, d_in


# projections -----------------------------------------------------------------
def p_c06(pickles):
    return [{'astNodeIds': p.get('astNodeIds'), 'name': p.get('name'), 'uri': p.get('uri'), 'language': p.get('language'),
             'has_steps': bool(p.get('steps'))} for p in pickles]


def p_c07(pickles):
    return [[{'astNodeIds': s.get('astNodeIds'), 'argument_kind': sorted(s['argument']) if 'argument' in s else None,
              'argument_shape': _arg_shape(s.get('argument'))} for s in p.get('steps', [])] for p in pickles]


def _arg_shape(a):
    if not a:
        return None
    if 'dataTable' in a:
        return [len(r['cells']) for r in a['dataTable']['rows']]
    if 'docString' in a:
        return ['doc', 'mediaType' in a['docString']]
    return 'unknown'


def p_c07_plain(pickles, plain_ids):
    """Arguments and texts copied verbatim for pickles of plain scenarios (no substitution involved)."""
    return [[{'text': s.get('text'), 'argument': s.get('argument')} for s in p.get('steps', [])] for p in pickles if len(p.get('astNodeIds', [])) == 1]


def p_c08(pickles):
    return [p.get('tags') for p in pickles]


def p_c09(pickles):
    return [{'name': p.get('name'), 'steps': [{'text': s.get('text'), 'argument': s.get('argument')} for s in p.get('steps', [])]} for p in pickles]


def p_c10(pickles):
    return [[s.get('type', '<missing>') for s in p.get('steps', [])] for p in pickles]


def p_c11(pickles):
    return [{'id': p.get('id'), 'steps': [s.get('id') for s in p.get('steps', [])]} for p in pickles]
