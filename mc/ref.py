"""E4 - analytic reference pipeline: RefLexer + RefMachine (interpreter of the *Java* transition table) +
online RefBuilder + ref_compile.  Written from the property statements, README and the sibling
implementations; it imports nothing from python/gherkin.  Its conformance to the published artefacts
is established by `selftest()` (the whole shared acceptance corpus must be reproduced)."""
import glob
import json
import os

from . import core
from . import tables as _tables

DIALECTS = json.load(open(os.path.join(core.REPO, 'gherkin-languages.json'), encoding='utf8'))
_TABLE = None


def java_table():
    global _TABLE
    if _TABLE is None:
        _TABLE = _tables.static_table('java')['states']
    return _TABLE
STEP_ROLES = [('given', 'Context'), ('when', 'Action'), ('then', 'Outcome'), ('and', 'Conjunction'), ('but', 'Conjunction')]
TITLE_ROLES = {'FeatureLine': ['feature'], 'RuleLine': ['rule'], 'BackgroundLine': ['background'],
               'ScenarioLine': ['scenario', 'scenarioOutline'], 'ExamplesLine': ['examples']}


class RefError(Exception):
    def __init__(self, msg, line, col=None):
        self.line, self.col, self.msg = line, col, msg
        self.text = '(%d:%d): %s' % (line, col or 0, msg)


def is_blank(c):
    return c.isspace() and c != '\n'


def split_cells(trimmed, indent):
    """trimmed: line without leading whitespace; returns [(column, value)]"""
    row = trimmed.strip()
    out = []
    state_in = False
    buf = ''
    bstart = 0
    i, n = 0, len(row)
    while i < n:
        c = row[i]
        if c == '|':
            if state_in:
                out.append((buf, bstart))
            state_in = True
            buf = ''
            bstart = i + 2
            i += 1
        elif c == '\\':
            nx = row[i + 1] if i + 1 < n else ''
            add = {'n': '\n', '|': '|', '\\': '\\'}.get(nx, '\\' + nx)
            if state_in:
                buf += add
            i += 2
        else:
            if state_in:
                buf += c
            i += 1
    res = []
    for buf, st in out:
        a = 0
        while a < len(buf) and is_blank(buf[a]):
            a += 1
        b = len(buf)
        while b > a and is_blank(buf[b - 1]):
            b -= 1
        res.append((indent + st + a, buf[a:b]))
    return res


def split_tags(trimmed, indent, line_no):
    s = trimmed.strip()
    cut = len(s)
    for i in range(len(s) - 1):
        if s[i].isspace() and s[i + 1] == '#':
            cut = i
            break
    s = s[:cut].strip()
    pos = [j for j, c in enumerate(s) if c == '@']
    res = []
    for n, j in enumerate(pos):
        end = pos[n + 1] if n + 1 < len(pos) else len(s)
        name = '@' + s[j + 1:end].strip()
        if any(c.isspace() for c in name):
            raise RefError('A tag may not contain whitespace', line_no, indent + j + 1)
        res.append((indent + j + 1, name))
    return res


def language_header(trimmed):
    """hand-coded: ws* '#' ws* 'language' ws* ':' ws* NAME ws* end ; NAME = [A-Za-z_-]+"""
    s = trimmed
    i = 0
    n = len(s)

    def ws(i):
        while i < n and s[i].isspace():
            i += 1
        return i
    i = ws(i)
    if i >= n or s[i] != '#':
        return None
    i = ws(i + 1)
    if not s.startswith('language', i):
        return None
    i = ws(i + 8)
    if i >= n or s[i] != ':':
        return None
    i = ws(i + 1)
    j = i
    while j < n and (s[j].isascii() and (s[j].isalpha() or s[j] in '-_')):
        j += 1
    if j == i:
        return None
    if ws(j) != n:
        return None
    return s[i:j]


class Tok:
    __slots__ = ('line_no', 'raw', 'eof', 'kind', 'keyword', 'text', 'items', 'column', 'ktype', 'dialect', 'trimmed', 'indent')

    def __init__(self, line_no, raw, eof=False):
        self.line_no, self.raw, self.eof = line_no, raw, eof
        self.kind = None
        self.column = None
        if not eof:
            self.trimmed = raw.lstrip()
            self.indent = len(raw) - len(self.trimmed)


class RefLexer:
    def __init__(self, default='en'):
        self.default = default
        self.reset()

    def reset(self):
        self.dialect = self.default
        self.sep = None
        self.sep_indent = 0

    def _set(self, t, kind, text=None, keyword=None, ktype=None, indent=None, items=()):
        t.kind = kind
        t.text = text.rstrip('\r\n') if text is not None else None
        t.keyword, t.ktype, t.items = keyword, ktype, list(items)
        t.column = (t.indent if indent is None else indent) + 1
        t.dialect = self.dialect
        return True

    def match(self, kind, t):
        if kind == 'EOF':
            if not t.eof:
                return False
            t.kind, t.text, t.keyword, t.ktype, t.items, t.column, t.dialect = 'EOF', None, None, None, [], 1, self.dialect
            return True
        if t.eof:
            return False
        tr = t.trimmed
        d = DIALECTS[self.dialect]
        if kind == 'Empty':
            return tr == '' and self._set(t, 'Empty', indent=0)
        if kind == 'Comment':
            return tr.startswith('#') and self._set(t, 'Comment', t.raw, indent=0)
        if kind == 'Language':
            name = language_header(tr)
            if name is None:
                return False
            self._set(t, 'Language', name)
            if name not in DIALECTS:
                raise RefError('Language not supported: ' + name, t.line_no, t.indent + 1)
            self.dialect = name
            return True
        if kind == 'TagLine':
            if not tr.startswith('@'):
                return False
            return self._set(t, 'TagLine', items=split_tags(tr, t.indent, t.line_no))
        if kind == 'TableRow':
            return tr.startswith('|') and self._set(t, 'TableRow', items=split_cells(tr, t.indent))
        if kind == 'DocStringSeparator':
            if self.sep is None:
                for sep in ('"""', '```'):
                    if tr.startswith(sep):
                        self.sep, self.sep_indent = sep, t.indent
                        return self._set(t, kind, tr[len(sep):].strip(), sep)
                return False
            if tr.startswith(self.sep):
                sep = self.sep
                self.sep, self.sep_indent = None, 0
                return self._set(t, kind, None, sep)
            return False
        if kind in TITLE_ROLES:
            for role in TITLE_ROLES[kind]:
                for kw in d[role]:
                    if tr.startswith(kw + ':'):
                        return self._set(t, kind, tr[len(kw) + 1:].strip(), kw)
            return False
        if kind == 'StepLine':
            for role, _ in STEP_ROLES:
                for kw in d[role]:
                    if tr.startswith(kw):
                        cats = {c for r, c in STEP_ROLES if kw in d[r]}
                        return self._set(t, kind, tr[len(kw):].strip(), kw, cats.pop() if len(cats) == 1 else 'Unknown')
            return False
        if kind == 'Other':
            text = tr if self.sep_indent > t.indent else t.raw[self.sep_indent:]
            if self.sep == '"""':
                text = text.replace('\\"\\"\\"', '"""')
            elif self.sep == '```':
                text = text.replace('\\`\\`\\`', '```')
            return self._set(t, 'Other', text, indent=0)
        raise ValueError(kind)


def scan(text):
    lines = text.split('\n')
    raw = [l + '\n' for l in lines[:-1]] + ([lines[-1]] if lines[-1] != '' else [])
    return raw


class RefMachine:
    LOOKAHEAD = {0: 'ScenarioLine', 1: 'ExamplesLine'}   # from gherkin.berp hints (order of appearance)

    def __init__(self, table, stop_at_first=False):
        self.table = table
        self.stop = stop_at_first

    def run(self, text, lexer=None, builder=None):
        lexer = lexer or RefLexer()
        lexer.reset()
        raw = scan(text)
        self.errors = []
        self.unexpected = []   # line numbers reported as unexpected
        self.states = []       # (line number, state after consuming that line)
        self.tokens = []   # tokens delivered to build
        queue = []
        pos = [0]

        def read():
            if queue:
                return queue.pop(0)
            pos[0] += 1
            if pos[0] <= len(raw):
                return Tok(pos[0], raw[pos[0] - 1])
            return Tok(pos[0], '', True)

        def add_error(e):
            if e.text not in [x.text for x in self.errors]:
                self.errors.append(e)
                if len(self.errors) > 10:
                    raise StopIteration

        def match(kind, t):
            if kind != 'EOF' and t.eof:
                return False
            if self.stop:
                return lexer.match(kind, t)
            try:
                return lexer.match(kind, t)
            except RefError as e:
                add_error(e)
                return False

        def lookahead(n):
            target = self.LOOKAHEAD[n]
            got = []
            ok = False
            while True:
                t = read()
                got.append(t)
                if match(target, t):
                    ok = True
                    break
                if not (match('Empty', t) or match('Comment', t) or match('TagLine', t)):
                    break
            queue.extend(got)
            return ok
        def prod(kind, arg):
            f = {'start': builder.start, 'end': builder.end, 'build': builder.build}[kind]
            if self.stop:
                return f(arg)
            try:
                f(arg)
            except RefError as e:
                add_error(e)
        state = 0
        try:
            prod('start', 'GherkinDocument')
            while True:
                t = read()
                st = self.table[state]
                done = False
                for alt in st['alts']:
                    if match(alt['tok'], t):
                        if alt['la'] is not None and not lookahead(alt['la']):
                            continue
                        for p in alt['prods']:
                            if p[0] == 'build':
                                self.tokens.append(t)
                                prod('build', t)
                            else:
                                prod(p[0], p[1])
                        state = alt['to']
                        done = True
                        break
                if not done:
                    self.unexpected.append(t.line_no)
                    exp = ', '.join(st['expected'])
                    if t.eof:
                        e = RefError('unexpected end of file, expected: ' + exp, t.line_no, None)
                    else:
                        e = RefError("expected: %s, got '%s'" % (exp, t.trimmed.strip()), t.line_no, t.column or t.indent + 1)
                    if self.stop:
                        raise e
                    add_error(e)
                self.states.append((t.line_no, state))
                if t.eof:
                    break
            prod('end', 'GherkinDocument')
        except StopIteration:
            return None
        return state


class IdGen:
    def __init__(self):
        self.n = 0

    def next(self):
        self.n += 1
        return str(self.n - 1)


class Node:
    def __init__(self, rule):
        self.rule = rule
        self.items = []   # (key, obj)

    def get(self, key):
        return [o for k, o in self.items if k == key]

    def one(self, key, default=None):
        g = self.get(key)
        return g[0] if g else default


class OnlineBuilder:
  def __init__(self, ids):
    self.ids = ids
    self.comments = comments = []
    self.stack = stack = [Node('None')]

    def loc(t, col=None):
        return {'line': t.line_no, 'column': col or t.column}

    def tags(node):
        tn = node.one('Tags')
        out = []
        if tn:
            for t in tn.get('TagLine'):
                for col, name in t.items:
                    out.append({'id': ids.next(), 'location': loc(t, col), 'name': name})
        return out

    def rows(node):
        rs = [{'id': ids.next(), 'location': loc(t), 'cells': [{'location': loc(t, c), 'value': v} for c, v in t.items]} for t in node.get('TableRow')]
        if rs:
            n = len(rs[0]['cells'])
            for r in rs:
                if len(r['cells']) != n:
                    raise RefError('inconsistent cell count within the table', r['location']['line'], r['location']['column'])
        return rs

    def desc(node):
        return node.one('Description', '')

    def transform(node):
        r = node.rule
        if r == 'Step':
            sl = node.one('StepLine')
            d = {'id': ids.next(), 'location': loc(sl), 'keyword': sl.keyword, 'keywordType': sl.ktype, 'text': sl.text}
            if node.one('DataTable'):
                d['dataTable'] = node.one('DataTable')
            elif node.one('DocString'):
                d['docString'] = node.one('DocString')
            return d
        if r == 'DocString':
            sep = node.get('DocStringSeparator')[0]
            d = {'location': loc(sep), 'content': '\n'.join(t.text for t in node.get('Other')), 'delimiter': sep.keyword}
            if sep.text:
                d['mediaType'] = sep.text
            return d
        if r == 'DataTable':
            rs = rows(node)
            return {'location': rs[0]['location'], 'rows': rs}
        if r == 'Background':
            bl = node.one('BackgroundLine')
            steps = node.get('Step')
            return {'id': ids.next(), 'location': loc(bl), 'keyword': bl.keyword, 'name': bl.text, 'description': desc(node), 'steps': steps}
        if r == 'ScenarioDefinition':
            tg = tags(node)
            sn = node.one('Scenario')
            sl = sn.one('ScenarioLine')
            return {'id': ids.next(), 'tags': tg, 'location': loc(sl), 'keyword': sl.keyword, 'name': sl.text,
                    'description': desc(sn), 'steps': sn.get('Step'), 'examples': sn.get('ExamplesDefinition')}
        if r == 'ExamplesDefinition':
            tg = tags(node)
            en = node.one('Examples')
            el = en.one('ExamplesLine')
            tr = en.one('ExamplesTable')
            d = {'id': ids.next(), 'tags': tg, 'location': loc(el), 'keyword': el.keyword, 'name': el.text, 'description': desc(en)}
            if tr:
                d['tableHeader'] = tr[0]
            d['tableBody'] = tr[1:] if tr else []
            return d
        if r == 'ExamplesTable':
            return rows(node)
        if r == 'Description':
            toks = node.get('Other')
            while toks and toks[-1].trimmed == '':      # property text: whitespace-only
                toks = toks[:-1]
            return '\n'.join(t.text for t in toks)
        if r == 'Rule':
            h = node.one('RuleHeader')
            tg = tags(h)
            rl = h.one('RuleLine')
            ch = []
            if node.one('Background'):
                ch.append({'background': node.one('Background')})
            ch += [{'scenario': s} for s in node.get('ScenarioDefinition')]
            return {'id': ids.next(), 'tags': tg, 'location': loc(rl), 'keyword': rl.keyword, 'name': rl.text, 'description': desc(h), 'children': ch}
        if r == 'Feature':
            h = node.one('FeatureHeader')
            if not h:
                return None
            tg = tags(h)
            fl = h.one('FeatureLine')
            if not fl:
                return None
            ch = []
            if node.one('Background'):
                ch.append({'background': node.one('Background')})
            ch += [{'scenario': s} for s in node.get('ScenarioDefinition')]
            ch += [{'rule': s} for s in node.get('Rule')]
            return {'tags': tg, 'location': loc(fl), 'language': fl.dialect, 'keyword': fl.keyword, 'name': fl.text, 'description': desc(h), 'children': ch}
        if r == 'GherkinDocument':
            d = {}
            if node.one('Feature'):
                d['feature'] = node.one('Feature')
            d['comments'] = comments
            return d
        return node
    self.transform = transform

  def start(self, rule):
    self.stack.append(Node(rule))

  def end(self, rule):
    n = self.stack.pop()
    pass
    self.stack[-1].items.append((n.rule, self.transform(n)))

  def build(self, t):
    if t.kind == 'Comment':
        self.comments.append({'location': {'line': t.line_no, 'column': 1}, 'text': t.text})
    else:
        self.stack[-1].items.append((t.kind, t))

  def result(self):
    return self.stack[0].one('GherkinDocument')


def ref_compile(doc, uri, ids):
    pickles = []
    f = doc.get('feature')
    if not f:
        return pickles
    lang = f['language']

    def subst(s, hdr, row):
        for h, v in zip(hdr, row):
            s = s.replace('<' + h + '>', v)
        return s

    def arg(step, hdr, row):
        if 'dataTable' in step:
            return {'dataTable': {'rows': [{'cells': [{'value': subst(c['value'], hdr, row)} for c in r['cells']]} for r in step['dataTable']['rows']]}}
        if 'docString' in step:
            ds = {'content': subst(step['docString']['content'], hdr, row)}
            if 'mediaType' in step['docString']:
                ds['mediaType'] = subst(step['docString']['mediaType'], hdr, row)
            return {'docString': ds}
        return None

    def scen(sc, tags, bg):
        def one(hdr, row, rowid, extra_tags):
            steps = []
            last = 'Unknown'
            if sc['steps']:
                for own, st in [(False, s) for s in bg] + [(True, s) for s in sc['steps']]:
                    if st['keywordType'] != 'Conjunction':
                        last = st['keywordType']
                    ps = {'astNodeIds': [st['id']] + ([rowid] if own and rowid is not None else []), 'id': ids.next(), 'type': last,
                          'text': subst(st['text'], hdr, row) if own else st['text']}
                    a = arg(st, hdr if own else [], row if own else [])
                    if a:
                        ps['argument'] = a
                    steps.append(ps)
            pickles.append({'astNodeIds': [sc['id']] + ([rowid] if rowid is not None else []), 'id': ids.next(),
                            'tags': [{'astNodeId': t['id'], 'name': t['name']} for t in tags + sc['tags'] + extra_tags],
                            'name': subst(sc['name'], hdr, row), 'language': lang, 'steps': steps, 'uri': uri})
        if not sc['examples']:
            one([], [], None, [])
        else:
            for ex in sc['examples']:
                if 'tableHeader' not in ex:
                    continue
                hdr = [c['value'] for c in ex['tableHeader']['cells']]
                for r in ex['tableBody']:
                    one(hdr, [c['value'] for c in r['cells']], r['id'], ex['tags'])
    fbg = []
    for ch in f['children']:
        if 'background' in ch:
            fbg = fbg + ch['background']['steps']
        elif 'scenario' in ch:
            scen(ch['scenario'], f['tags'], fbg)
        else:
            rule = ch['rule']
            rbg = list(fbg)
            for rc in rule['children']:
                if 'background' in rc:
                    rbg = rbg + rc['background']['steps']
                else:
                    scen(rc['scenario'], f['tags'] + rule['tags'], rbg)
    return pickles


def format_tokens(tokens):
    return '\n'.join(format_token_list(tokens))


def format_token_list(tokens):
    out = []
    for t in tokens:
        if t.eof:
            out.append('EOF')
            continue
        kw = '(%s)%s' % (t.ktype or '', t.keyword) if t.keyword else ''
        out.append('(%d:%d)%s:%s/%s/%s' % (t.line_no, t.column, t.kind, kw, t.text or '', ','.join('%d:%s' % i for i in t.items)))
    return out


class Result:
    __slots__ = ('status', 'doc', 'pickles', 'errors', 'tokens', 'unexpected', 'capped', 'ids', 'states')

    def key(self):
        """comparable outcome: ('ok', doc, pickles) or ('errors', [(line, col, text)])"""
        if self.status == 'ok':
            return ('ok', self.doc, self.pickles)
        return ('errors', self.errors)


def reference(text, uri='u', table=None, stop=False, default='en', compile_=True):
    """Run the reference pipeline on a source text."""
    table = table or java_table()
    m = RefMachine(table, stop)
    ids = IdGen()
    b = OnlineBuilder(ids)
    r = Result()
    r.doc = r.pickles = None
    r.capped = False
    try:
        st = m.run(text, RefLexer(default), b)
    except RefError as e:
        r.status, r.errors, r.tokens, r.unexpected = 'errors', [(e.line, e.col, e.text)], m.tokens, m.unexpected
        r.states = m.states
        return r
    r.tokens, r.unexpected = m.tokens, m.unexpected
    r.states = m.states
    if st is None or m.errors:
        r.status = 'errors'
        r.capped = st is None
        r.errors = [(e.line, e.col, e.text) for e in m.errors]
        return r
    r.status = 'ok'
    r.errors = []
    doc = b.result()
    doc['uri'] = uri
    r.doc = doc
    r.pickles = ref_compile(doc, uri, ids) if compile_ else None
    r.ids = ids.n
    return r


def corpus():
    good = sorted(glob.glob(os.path.join(core.REPO, 'testdata/good/*.feature')))
    bad = sorted(glob.glob(os.path.join(core.REPO, 'testdata/bad/*.feature')))
    return good, bad


def read_source(path):
    return open(path, encoding='utf8', newline='').read()


def selftest():
    """The reference pipeline must reproduce the shared acceptance corpus byte for byte (after JSON parsing).
    Returns a list of problems (empty = conformant)."""
    problems = []
    good, bad = corpus()
    if len(good) < 30 or len(bad) < 8:
        problems.append('corpus too small: %d good, %d bad' % (len(good), len(bad)))
    for f in good:
        text = read_source(f)
        uri = '../testdata/good/' + os.path.basename(f)
        r = reference(text, uri)
        if r.status != 'ok':
            problems.append('reference rejects ' + f)
            continue
        exp_ast = json.loads(open(f + '.ast.ndjson', encoding='utf8').read())['gherkinDocument']
        if r.doc != exp_ast:
            problems.append('AST differs for ' + f)
        exp_p = [json.loads(l)['pickle'] for l in open(f + '.pickles.ndjson', encoding='utf8') if l.strip()]
        if r.pickles != exp_p:
            problems.append('pickles differ for ' + f)
        exp_t = open(f + '.tokens', encoding='utf8').read()
        if format_tokens(r.tokens) + '\n' != exp_t:
            problems.append('tokens differ for ' + f)
    for f in bad:
        text = read_source(f)
        uri = '../testdata/bad/' + os.path.basename(f)
        r = reference(text, uri)
        exp = [json.loads(l)['parseError'] for l in open(f + '.errors.ndjson', encoding='utf8') if l.strip()]
        got = [{'source': {'uri': uri, 'location': ({'line': l, 'column': c} if c else {'line': l})}, 'message': t} for l, c, t in r.errors]
        if r.status != 'errors' or got != exp:
            problems.append('errors differ for ' + f)
    return problems
