"""Shape enumerators and job runner for the compiler checks (C06-C11).

Every shape is a document model (mc.docmodel); it is rendered, and the compiler is driven two ways:
  AST route     Compiler.compile on the AST dictionary computed from the model (no parser involved)
  parser route  Compiler.compile on what Parser.parse returns for the rendered text
Both are compared with the reference compiler run on the *same* input AST, projected onto the aspect the
property speaks about (so a parser defect cannot alarm a compiler property)."""
from __future__ import annotations

import copy
import importlib
import itertools

from . import core
from .core import Acc, worker
from . import docmodel as M
from . import impl as I
from . import pick as P

S = M.step


def lists(items, maxn):
    for n in range(maxn + 1):
        for combo in itertools.product(items, repeat=n):
            yield [copy.deepcopy(c) for c in combo]


EX_SHAPES = {
    'no-table': lambda tg: M.examples('e', None, tags=tg),
    'header-only': lambda tg: M.examples('e', [['a', 'b']], tags=tg),
    'one-row': lambda tg: M.examples('e', [['a', 'b'], ['1', '2']], tags=tg),
    'two-rows': lambda tg: M.examples('e', [['a', 'b'], ['1', '2'], ['3', '4']], tags=tg),
    'empty-header': lambda tg: M.examples('e', [[], []], tags=tg),
}


def ex(shape, tagged=False):
    return EX_SHAPES[shape]([M.tagline(['@e'])] if tagged else [])


def check_both_routes(mod, model, acc, layout=None, parser_route=True):
    text, exp, r = M.render(model, layout)
    case = {'kind': 'ast', 'ast': exp, 'text': text}
    mod.check_ast(exp, acc, case)
    if parser_route:
        a = I.parse(text, default=r.L.dialect)
        if a[0] == 'ok':
            mod.check_ast(a[1], acc, {'kind': 'ast', 'ast': a[1], 'text': text, 'route': 'parser'})
        else:
            acc.counters['parser_route_rejected'] += 1
    return text


@worker
def job_shapes(module, family, shard, nshards, quick):
    mod = importlib.import_module(module)
    acc = Acc()
    last = None
    if family == 'pairs':
        from . import gen as G
        models = (f for _, f in G.pair_documents())
    elif family == 'repetition':
        from . import gen as G
        models = (f for _, f in G.repetition_documents())
    else:
        models = mod.shapes(family, quick)
    for i, model in enumerate(models):
        if i % nshards != shard:
            continue
        last = check_both_routes(mod, model, acc)
    if last is not None:
        acc.sample({'family': family, 'text': last})
    return acc


@worker
def job_structure(module, budget, shard, nshards):
    """The structure family of mc.gen through parser + compiler."""
    from . import gen as G
    mod = importlib.import_module(module)
    acc = Acc()
    last = None
    for f, trailer in G.structure(budget, shard, nshards):
        text, exp, r = M.render(f, trailer=trailer)
        if not M.roles_ok(r):
            continue
        a = I.parse(text, default=r.L.dialect)
        if a[0] != 'ok':
            acc.counters['parser_route_rejected'] += 1
            continue
        mod.check_ast(a[1], acc, {'kind': 'ast', 'ast': a[1], 'text': text, 'route': 'parser'})
        last = text
    if last is not None:
        acc.sample({'family': 'structure<=%d' % budget, 'text': last})
    return acc


@worker
def job_deviations(module, base_index, k, shard, nshards):
    """The deviation family of mc.gen (every variant of a base document in <= k slots: names, texts, tags, cells, keywords,
    description and doc-string lines, layout) through parser + compiler."""
    from . import gen as G
    mod = importlib.import_module(module)
    acc = Acc()
    last = None
    base = G.base_documents()[base_index]
    for i, (m, lay) in enumerate(G.variants(base, k)):
        if i % nshards != shard:
            continue
        try:
            text, exp, r = M.render(m, M.Layout(**lay))
        except (StopIteration, KeyError, IndexError):
            continue
        a = I.parse(text, default=r.L.dialect)
        if a[0] != 'ok':
            acc.counters['parser_route_rejected'] += 1
            continue
        mod.check_ast(a[1], acc, {'kind': 'ast', 'ast': a[1], 'text': text, 'route': 'parser'})
        last = text
    if last is not None:
        acc.sample({'family': 'deviations of base %d' % base_index, 'text': last})
    return acc


@worker
def job_edits(module, max_chars, bi):
    """Single-edit neighbourhood of the corpus and base documents (mc.docspace) through parser + compiler: every accepted variant."""
    from . import docspace as DS
    mod = importlib.import_module(module)
    acc = Acc()
    last = None
    for text in DS.single_edits(DS.edit_bases(max_chars)[bi]):
        a = I.parse(text)
        if a[0] != 'ok':
            acc.counters['parser_route_rejected'] += 1
            continue
        mod.check_ast(a[1], acc, {'kind': 'ast', 'ast': a[1], 'text': text, 'route': 'parser'})
        last = text
    if last is not None:
        acc.sample({'family': 'single edits', 'text': last[:300]})
    return acc


def run_shapes(ctx, module, families, structure_n=(5, 6)):
    ns = 16
    mod = importlib.import_module(module)
    for fam in list(families) + ['pairs', 'repetition']:
        ctx.level('shapes:' + fam, [job_shapes.job(module, fam, s, ns, ctx.quick) for s in range(ns)])
    from . import gen as G
    nb = len(G.base_documents())
    ctx.level('deviation documents k<=1 via parser', [job_deviations.job(module, b, 1, 0, 1) for b in range(nb)])
    if not ctx.quick:
        ctx.level('deviation documents k<=2 via parser', [job_deviations.job(module, b, 2, s, ns) for b in range(nb) for s in range(ns)])
    from . import docspace as DS
    mc = ctx.pick(250, 1500)
    ctx.level('single edits of corpus and base documents <= %d characters via parser' % mc, [job_edits.job(module, mc, bi) for bi in range(len(DS.edit_bases(mc)))])
    n = ctx.pick(*structure_n)
    ctx.level('structure N<=%d via parser' % n, [job_structure.job(module, n, s, 192) for s in range(192)])


def compare(acc, case, sig, what, got, exp):
    if got != exp:
        i = next((i for i, (x, y) in enumerate(zip(got, exp)) if x != y), min(len(got), len(exp)))
        acc.violation(sig, case, '%s differ from the reference compiler at pickle %d (of %d / %d)' % (what, i, len(got), len(exp)),
                      observed=got[i:i + 1], expected=exp[i:i + 1])
        return False
    return True
