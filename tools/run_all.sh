#!/bin/bash
# run every claimed check once (quick unless TIER is given); prints one line per check
cd "$(dirname "$(readlink -f "$0")")/.."
TIER=${TIER:-quick}
for id in $(python3 -c "import json;print(' '.join(c['property_id'] for c in json.load(open('MANIFEST.json'))['checks']))"); do
  if [ $# -gt 0 ] && [[ ! " $* " =~ " $id " ]]; then continue; fi
  s=$(date +%s)
  out=$(./check $id --tier $TIER 2>&1); rc=$?
  e=$(date +%s)
  echo "$id rc=$rc $((e-s))s $(echo "$out" | grep -c '^VIOLATION') violations $(echo "$out" | grep -c '^KNOWN-FINDING') known"
  [ $rc -ne 0 ] && echo "$out" | tail -5
done
