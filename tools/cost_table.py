#!/usr/bin/env python3
"""tools/cost_table.py <quick evidence dir> [<thorough evidence dir>]   prints the 'measured cost and coverage' table of DESIGN section 9."""
import glob
import json
import os
import sys

def load(d):
    out = {}
    for f in sorted(glob.glob(os.path.join(d, 'C*.json'))):
        e = json.load(open(f))
        out[os.path.basename(f)[:-5]] = e
    return out

def g(e, *keys):
    for k in keys:
        if isinstance(e, dict) and k in e:
            e = e[k]
        else:
            return None
    return e

q = load(sys.argv[1])
t = load(sys.argv[2]) if len(sys.argv) > 2 else {}
print('| id | quick: executions | non-trivial | states / transitions | wall | levels | thorough: executions | wall | levels completed |')
print('|---|---|---|---|---|---|---|---|---|')
for pid, e in q.items():
    c = e.get('coverage', e)
    def num(x, k):
        v = g(x, 'coverage', k)
        return v if v is not None else x.get(k)
    lv = e.get('levels') or g(e, 'coverage', 'levels') or []
    row = [pid, '{:,}'.format(num(e, 'evaluations') or 0), '{:,}'.format(num(e, 'distinct_nontrivial') or 0),
           '%s / %s' % (num(e, 'states'), num(e, 'transitions')), '%s s' % round(e.get('wall_s') or g(e, 'coverage', 'wall_s') or 0), str(len(lv))]
    if pid in t:
        x = t[pid]
        lt = x.get('levels') or g(x, 'coverage', 'levels') or []
        row += ['{:,}'.format(num(x, 'evaluations') or 0), '%s s' % round(x.get('wall_s') or g(x, 'coverage', 'wall_s') or 0),
                '%d of %d' % (sum(1 for l in lt if l.get('completed')), len(lt))]
    else:
        row += ['', '', '']
    print('| ' + ' | '.join(row) + ' |')
