#!/usr/bin/env python3
"""Prints the markdown table of /verif/seeded/*/meta.json (name, property, what it needs, which checks caught it)."""
import glob
import json
import os

ROOT = os.path.dirname(os.path.dirname(os.path.abspath(__file__)))
rows = []
for f in sorted(glob.glob(os.path.join(ROOT, 'seeded', '*', 'meta.json'))):
    m = json.load(open(f))
    note = ' '.join(m.get('needs_to_manifest', '').split())
    if len(note) > 230:
        note = note[:227] + '...'
    det = [c for c, r in sorted(m.get('checks', {}).items()) if r.get('detected')]
    mis = [c for c, r in sorted(m.get('checks', {}).items()) if not r.get('detected')]
    first = m['checks'].get(m['property'], {}).get('first_finding', '')
    sig = first[first.find('[') + 1:first.find(']')] if '[' in first else ''
    rows.append('| %s | %s | %s | %s%s | %s |' % (m['name'], m['property'], note.replace('|', '\\|'), ', '.join(det) or '-', (' (missed by: %s)' % ', '.join(mis)) if mis else '', sig))
print('| change | property | what it is / what it needs to manifest | caught by | first signature |')
print('|---|---|---|---|---|')
print('\n'.join(rows))
