#!/usr/bin/env python3
"""Regenerates /verif/MANIFEST.json from the table below (kept here so the manifest never drifts from the checks)."""
import json
import os

ROOT = os.path.dirname(os.path.dirname(os.path.abspath(__file__)))
ALL = ['C%02d' % i for i in range(1, 20)]

CHECKS = {
    'C01': dict(
        text='Intrinsic totality oracle (permitted outcome types, 1..11 located errors, list of pickles, envelope kinds, call counters) on every '
             'document of four bounded-exhaustive spaces run directly on the implementation: lines from every control state, error-cap families, all strings over '
             'adversarial character alphabets in six kinds of slot, every Unicode scalar value in one-character slots (thorough; predicate-boundary code points in quick), '
             'plus exact linearity of line-matching operations on growth families.',
        note='Inputs longer than the bounds or outside the alphabets are not covered; the known finding D1 (text naming an existing path) is listed in known_findings.json.',
        technique='bounded exhaustive enumeration of inputs run on the implementation with an invariant oracle and operation counters',
        ref='2/C01', engine='E4'),
    'C02': dict(
        text='Exact decision on the finite automaton (product of the gherkin.berp subset automaton with the transition function extracted '
             'from the running parser, carrying the open-rule stack: language equality and derivation for every length), explicit-state BFS '
             'over the real Parser.parse loop with bounded look-ahead queue, every kind sequence of length <= L replayed through the real '
             'parser and compared with the model, and bisimulation of the six generated parsers.',
        note='Lexing is abstracted to line kinds (stub matcher); sibling tables are read by line-regex from generated sources and must yield 42 states/334 alternatives.',
        technique='explicit-state product construction to fixpoint + bounded exhaustive replay of all kind sequences through the real parser',
        ref='2/C02', engine='E1-E3'),
    'C03': dict(
        text='Generative document models (intent -> text -> expected AST): every derivation of <= N lines with unique labels and every document within k slot '
             'deviations of nine structure-covering base documents (complete variant alphabets for names, texts, tags, cells, keywords, description and doc-string lines, '
             'indentation, padding, line ends); the AST with locations/ids projected away must equal the model. Candidates are admitted only if the grammar automaton reads each line in the intended role.',
        note='Expected ASTs come from the model renderer, not from a parser; documents beyond N lines / k deviations are not covered.',
        technique='bounded exhaustive enumeration of document models rendered to text and replayed through the real parser',
        ref='2/C03', engine='E5'),
    'C04': dict(
        text='Same model families with the renderer\'s recorded 1-based line / code-point column for every element compared with every AST location, plus a slicing oracle '
             '(re-reading the source at each reported position) on all noisy documents from every control state, and error positions compared with the reference machine and with the position printed in the message.',
        note='Positions are produced by the renderer or re-read from the source; bounds as in C03/C14.',
        technique='bounded exhaustive enumeration of rendered models and noisy documents with position oracles',
        ref='2/C04', engine='E5'),
    'C05': dict(
        text='Finite spaces swept completely: 80 dialects x 1126 distinct keyword strings x 6 matcher entry points x 4 layouts against the reference lexer; every listed keyword of every dialect end to end (as default dialect and via header) with keyword/language/keywordType assertions; '
             'every foreign keyword in a description position; all first-line strings of <= 4/5 symbols over a 12-symbol header alphabet and all <= 4-line prefixes over {comment, blank, header(fr), header(no), tag} before en/fr/no feature lines; byte comparison of the two language tables.',
        note='Header strings longer than the bound are not covered; the reference lexer reads the master language table.',
        technique='complete sweep of a finite configuration space plus bounded exhaustive string enumeration against a reference lexer',
        ref='2/C05', engine='E8'),
    'C06': dict(
        text='Complete cross product of document shapes (feature background x lists of scenario variants covering 0..2 steps and every examples shape x lists of rules) '
             'compiled via the AST route (dictionaries computed from the model) and the parser route; pickles compared one-to-one, in order, with a direct count oracle and the reference compiler (name, uri, language, astNodeIds).',
        note='List lengths bounded (<=3/4 scenarios, <=2 rules); the reference compiler is written from the property statements and self-tested on the corpus pickles.',
        technique='bounded exhaustive enumeration of AST shapes through the real compiler against a reference model',
        ref='2/C06', engine='E5'),
    'C07': dict(
        text='Cross product feature background {absent,0,1,2 steps} x scenarios x up to two rules with backgrounds x own steps {0,1,2} x plain/outline x six argument kinds; '
             'pickle step sources walked on the AST (direct oracle), arguments verbatim, reference compiler, and input-unchanged check.',
        note='Multiplicities bounded as stated; both compile routes.',
        technique='bounded exhaustive enumeration of AST shapes through the real compiler against a reference model',
        ref='2/C07', engine='E5'),
    'C08': dict(
        text='Complete cross product of tag multiplicities (none, one, duplicated name, two on a line, two lines) at feature / rule / scenario / examples level with 1-2 rules, scenarios and examples blocks; '
             'exact (astNodeId, name) lists from a direct oracle and the reference compiler, via AST and parser route (tag look-ahead paths).',
        note='Tag menus and list lengths bounded as stated.',
        technique='bounded exhaustive enumeration of AST shapes through the real compiler against a reference model',
        ref='2/C08', engine='E5'),
    'C09': dict(
        text='All header names over an 18-symbol adversarial alphabet (regex metacharacters, backslash, $, <, >, blank) up to length 2/3 x all values up to length 2 x 7 templates, substituted into name, step text, cell, doc string content and media type through Compiler.compile; '
             'two-column order/duplicate families; parser route for representable cells; oracle = sequential str.replace.',
        note='Characters outside the alphabet are represented by their class.',
        technique='exhaustive enumeration of strings over an adversarial alphabet through the real compiler against literal replacement',
        ref='2/C09', engine='E6'),
    'C10': dict(
        text='All keyword-type sequences (6 keywords, 5 types) of total length <= 5/6 split in every way across feature background / rule background / scenario, plain and outline, via AST and parser route; '
             'every distinct step keyword of all 80 dialects after each of five predecessors through the parser; oracle = fold from Unknown, vocabulary check.',
        note='Sequence length bounded; at the longest length the But keyword is dropped (same type as And).',
        technique='bounded exhaustive enumeration of keyword-type sequences through the real compiler with a fold oracle',
        ref='2/C10', engine='E5'),
    'C11': dict(
        text='Document models (structure <= N lines, deviations) parsed and compiled with one fresh generator: AST ids must equal the model post-order numbering, pickle ids continue steps-first, ids dense 0..n-1, every reference resolves to the right node kind; '
             'all histories of <= 3/4 documents from a 10-document pool through one stream and one parser/compiler pair: ids pairwise distinct and equal to fresh ids plus the running offset.',
        note='History length and pool bounded; N and k as in C03.',
        technique='bounded exhaustive enumeration of document models and document histories with an id-numbering model',
        ref='2/C11', engine='E5'),
    'C12': dict(
        text='All row strings over the character classes the splitter distinguishes up to length 8 (quick) / 10 (thorough) into GherkinLine.table_cells against an explicit 3-state splitter, '
             'the same through the whole parser as data-table and examples rows, round trip of every escaped cell text up to length 4/5, and all 340 table shapes (<=4 rows, cell counts 0..3) as data and examples tables in first and non-first position.',
        note='One representative per character class (rotated by VERIF_SEED); longer rows are not covered.',
        technique='exhaustive enumeration of strings over character classes against a reference automaton',
        ref='2/C12', engine='E6'),
    'C13': dict(
        text='Doc-string document models: every content sequence of <= 2 (thorough 3) lines over 14 line forms (all Gherkin-looking lines, blank, whitespace-only, other delimiter, escaped delimiters, trailing blanks) x indentation relation {less, equal, more} '
             'x both delimiters x delimiter indentation {0,2,5} x media type x host {background, scenario, outline, rule} x follower {EOF, step, scenario, tags+scenario, examples} x {LF, CRLF}; AST (content, delimiter, mediaType, follower structure, location) must equal the model.',
        note='Quick crosses media/host/follower/line-end as a covering set for 2-line contents; longer contents are not covered.',
        technique='bounded exhaustive enumeration of document models rendered to text and replayed through the real parser',
        ref='2/C13', engine='E5'),
    'C14': dict(
        text='Every document witness-prefix.w (one prefix per state of the generated machine and matcher mode, w over a 28-line alphabet, |w|<=K, '
             'with/without final newline) and error-cap families in both error modes and through the stream, compared error by error with a '
             'reference machine interpreting the Java transition table.',
        note='Reference lexer/machine/builder are self-tested against the whole shared acceptance corpus on every run; texts longer than the bound are not covered.',
        technique='bounded exhaustive enumeration of documents from every control state against a reference model',
        ref='2/C14', engine='E4'),
    'C19': dict(
        text='Complete sweep of 80 dialects x every title keyword x header depth 1..7 x indentation x separator x title and every step keyword x 7 bullet forms x spacing x indentation, table rows at indentation 0..8 (space/tab) over 7 cell forms, '
             'tag lines with 0..3 back-quoted tags and interleaved words, against a hand-written regex-free reference for return value, type, keyword, text and column.',
        note='Line-level only, as the property states; mixed separator/data rows are unspecified and skipped.',
        technique='complete sweep of a finite configuration space against a reference matcher',
        ref='2/C19', engine='E8'),
    'C15': dict(
        text='Histories: every ordered sequence of 2..3 (thorough 4) documents from a pool of 14 state-perturbing documents through one Parser/TokenMatcher/Compiler in 5 configurations, each result compared with fresh instances; '
             'schedules: a controlled scheduler gates TokenScanner.read so that ALL interleavings of the read points of two 5-line parses and three short parses are executed, results compared with solo results, failing schedules must reproduce; '
             'plus compile-input-unchanged, compile repeatability, DIALECTS unchanged, and cross-process determinism under different hash seeds.',
        note='Pre-emption only at line boundaries (as the property states); pool and history length bounded; three-way interleavings use 2-line (quick) / 3-line (thorough) documents.',
        technique='exhaustive enumeration of operation histories and of all thread interleavings at read points under a controlled scheduler',
        ref='2/C15', engine='E7'),
    'C16': dict(
        text='Metamorphic relation applied at every admissible position: for each base document (52 corpus files, model documents in 5 layouts, noisy/rejected documents from every control state, all structure documents of <= 4/6 lines) '
             'each layout transformation (CRLF, file instead of string, trailing blanks, extra indentation incl. doc-string blocks, blank line at every admissible gap, comment before every structural line, final newline) at each line/gap and at all together; '
             'results compared after the exact position mapping the relation allows.',
        note='Admissible positions are decided by the reference machine; documents with lone carriage returns are excluded as the property states.',
        technique='bounded exhaustive enumeration of (document, transformation, position) triples with a relational oracle',
        ref='2/C16', engine='E4'),
    'C17': dict(
        text='All sequences of <= 3 (thorough 4) sources from a pool of 20 x all 8 print-option combinations through one GherkinEvents: envelope kinds/order/option gating, uri, data unchanged, media type, '
             'shape validation of every envelope (validator self-tested on the corpus ndjson), per-source envelopes equal solo envelopes with ids shifted; scripts/generate_events.py on all corpus files against the expected ndjson.',
        note='Pool and sequence length bounded.',
        technique='exhaustive enumeration of source sequences and configurations against solo runs and a message-shape model',
        ref='2/C17', engine='E9'),
    'C18': dict(
        text='Token delivery oracle (each physical line exactly once, in order, with its number, then one EOF; delivered xor reported-unexpected for rejected documents) '
             'on every kind sequence of length <= L through the real parse loop, on all look-ahead words TagLine r1 t1 r2 t2 from each of the states with a look-ahead '
             'alternative (nested/repeated look-ahead with a non-empty queue), and at text level through TokenFormatterBuilder against the reference lexer listing and the corpus .tokens files.',
        note='Kind level abstracts lexing; runs over {TagLine,Comment,Empty} are bounded (r1<=3/4, r2<=1/2); text level bounded as in C14.',
        technique='bounded exhaustive enumeration of token-kind sequences and look-ahead arrangements through the real parse loop with a recording builder',
        ref='2/C18', engine='E1-E3'),
}

PENDING = 'check under construction in this session (see DESIGN.md section 2); not claimed until its quick run is silent on the unchanged tree'


# input families shared by several checks (added after the seeded campaign showed where single checks' alphabets were thin)
_TEXT = ('Shared text families: rare-line alphabet (words <= 2 with a rare line after every witness prefix), single-edit neighbourhood of the acceptance corpus and the '
         'model base documents (one character from a 14 + 13 character menu inserted / deleted at every position, lines duplicated / deleted / swapped), '
         'one construct repeated 1..12 times, documents pushed down by 8..1000 lines.')
_MODEL = 'Shared model families: one construct repeated 1..12 times; every construct in every dialect x k-th keyword of every role; parser routes fresh / long-lived after an adversarial history / stop mode with explicit matcher / text given directly.'
_COMP = ('Shared compiler families: single-edit neighbourhood and repetition documents through parser + compiler; compile routes fresh / long-lived compiler / JSON round trip with sorted keys / '
         'second compilation of the same document object.')
SHARED = {'C01': _TEXT, 'C02': _TEXT, 'C03': _TEXT + ' ' + _MODEL, 'C04': _TEXT + ' ' + _MODEL, 'C14': _TEXT, 'C18': _TEXT,
          'C06': _COMP, 'C07': _COMP, 'C08': _COMP, 'C09': _COMP, 'C10': _COMP, 'C11': _COMP + ' ' + _MODEL,
          'C16': 'Base documents also include the single-edit neighbourhood of short corpus / base documents, repetition documents, long lines, long paths and chunk-boundary files.',
          'C17': 'Also: single-edit neighbourhood documents as one-source streams; two enum() generators of one stream drawn alternately (bounded switches); strict one-JSON-envelope-per-line output of the script in all 8 option sets.'}


def main():
    checks = []
    for pid in ALL:
        if pid not in CHECKS:
            continue
        c = dict(CHECKS[pid])
        if pid in SHARED:
            c['text'] = c['text'] + ' ' + SHARED[pid]
        checks.append({
            'property_id': pid,
            'quick_cmd': './check %s --tier quick' % pid,
            'thorough_cmd': './check %s --tier thorough' % pid,
            'evidence_file': '/verif/evidence/%s.json' % pid,
            'replay_cmd_template': './check %s --replay {path}' % pid,
            'engine': c['engine'],
            'level_claimed': {'category': 'model_checking', 'text': c['text'], 'design_ref': 'DESIGN.md section ' + c['ref']},
            'level_note': c['note'],
            'technique': c['technique'],
        })
    m = {
        'version': 1,
        'setup_cmd': '/venv/bin/python -m compileall -q /verif/mc >/dev/null 2>&1; true',
        'hooks': {
            'guard': 'CUCUMBER_GHERKIN_PYTHON_VERIF',
            'enable': 'no source hooks are needed: every observation point is reachable from outside (scanner, matcher, builder objects and an instance-level wrapper of Parser.match_token)',
            'baseline_off_cmd': 'cd /repo && /venv/bin/python -m pytest -ra -q -p no:cacheprovider --timeout=900 --continue-on-collection-errors',
            'source_commits': [],
            'add_only': True,
        },
        'engines': [
            {'name': 'E1-E3', 'path': 'mc/berp.py mc/tables.py mc/kinds.py', 'serves_properties': ['C02', 'C18'],
             'kind_free_text': 'grammar subset automaton, transition tables extracted statically (6 parsers) and dynamically (running parser), kind-level run explorer'},
            {'name': 'E5', 'path': 'mc/docmodel.py mc/gen.py', 'serves_properties': ['C03', 'C04', 'C11', 'C13'],
             'kind_free_text': 'generative document models: intent -> text -> expected AST with positions and ids; structure and deviation enumerators'},
            {'name': 'E6', 'path': 'mc/checks/c12.py mc/checks/c09.py', 'serves_properties': ['C12', 'C09'],
             'kind_free_text': 'character-level enumerators over class alphabets against explicit reference automata'},
            {'name': 'E8', 'path': 'mc/checks/c05.py mc/checks/c19.py', 'serves_properties': ['C05', 'C19'],
             'kind_free_text': 'complete sweeps of finite configuration spaces (dialect x keyword x role x layout)'},
            {'name': 'E7', 'path': 'mc/checks/c15.py', 'serves_properties': ['C15', 'C11'],
             'kind_free_text': 'history enumerator and baton scheduler that gates TokenScanner.read to enumerate all interleavings'},
            {'name': 'E9', 'path': 'mc/msgshape.py', 'serves_properties': ['C17'],
             'kind_free_text': 'hand-written Cucumber Messages shape validator, self-tested on the corpus'},
            {'name': 'E4', 'path': 'mc/ref.py mc/impl.py mc/docspace.py', 'serves_properties': ['C01', 'C03', 'C04', 'C14', 'C16', 'C18'],
             'kind_free_text': 'independent reference lexer/machine/builder/compiler (self-tested on the acceptance corpus) and bounded document spaces from every control state'},
        ],
        'checks': checks,
        'notes': 'All checks: ./check <ID> --tier quick|thorough; exit 0/1/2; evidence in /verif/evidence/<ID>.json; replays in /verif/replays/.',
        'not_applicable': [{'property_id': p, 'reason': PENDING} for p in ALL if p not in CHECKS],
    }
    with open(os.path.join(ROOT, 'MANIFEST.json'), 'w') as f:
        json.dump(m, f, indent=1)
        f.write('\n')


if __name__ == '__main__':
    main()
