#!/bin/bash
# tools/mutant.sh <patch.diff> <check ids...>   run checks against a scratch worktree of /repo with the patch applied
# (never touches /repo's working tree, evidence or replays); prints per check: DETECTED / missed
set -u
PATCH=$(readlink -f "$1"); shift
WT=$(mktemp -d /tmp/mut-XXXXXX)
git -C /repo worktree add -q --detach "$WT" HEAD || exit 2
trap 'git -C /repo worktree remove --force "$WT" >/dev/null 2>&1; rm -rf "$WT" "$OUT"' EXIT
OUT=$(mktemp -d /tmp/mut-out-XXXXXX)
if ! git -C "$WT" apply "$PATCH"; then echo "patch does not apply"; exit 2; fi
if [ "${RUN_TESTS:-0}" = 1 ]; then
  (cd "$WT" && /venv/bin/python -m pytest -q -p no:cacheprovider python 2>&1 | tail -1)
fi
cd /verif
for id in "$@"; do
  s=$(date +%s)
  out=$(VERIF_REPO="$WT" VERIF_EVIDENCE_DIR="$OUT" VERIF_REPLAY_DIR="$OUT" ./check "$id" --tier ${TIER:-quick} 2>&1); rc=$?
  e=$(date +%s)
  if [ $rc -eq 1 ]; then echo "$id DETECTED ($((e-s))s): $(echo "$out" | grep -m1 '^  \[' | cut -c1-200)"; 
  elif [ $rc -eq 0 ]; then echo "$id missed ($((e-s))s)"; else echo "$id rc=$rc: $(echo "$out" | tail -3)"; fi
done
