#!/bin/bash
# tools/refactor_eval.sh <name> <patch.diff>   all quick checks against a behaviour-preserving refactoring in a scratch worktree:
# every line must say "silent"; an alarm is either a behaviour change the author missed or a false alarm of a check.
PATCH=$(readlink -f "$2"); NAME=$1
WT=$(mktemp -d /tmp/ref-XXXXXX); OUT=$(mktemp -d /tmp/ref-out-XXXXXX)
git -C /repo worktree add -q --detach "$WT" HEAD || exit 2
trap 'git -C /repo worktree remove --force "$WT" >/dev/null 2>&1; rm -rf "$WT" "$OUT"' EXIT
if ! git -C "$WT" apply "$PATCH"; then echo "$NAME: patch does not apply"; exit 2; fi
t=$(cd "$WT" && /venv/bin/python -m pytest -q -p no:cacheprovider 2>&1 | tail -1)
echo "== $NAME tests[$t]"
cd "$(dirname "$(readlink -f "$0")")/.."
for id in $(python3 -c "import json;print(' '.join(c['property_id'] for c in json.load(open('MANIFEST.json'))['checks']))"); do
  if [ -n "${3:-}" ] && [[ ! " ${@:3} " =~ " $id " ]]; then continue; fi
  out=$(VERIF_REPO="$WT" VERIF_EVIDENCE_DIR="$OUT" VERIF_REPLAY_DIR="$OUT" ./check "$id" --tier quick 2>&1); rc=$?
  if [ $rc -eq 0 ]; then echo "   $id silent"; else echo "   $id ALARM rc=$rc: $(echo "$out" | grep -m2 '^  \[' | cut -c1-300)"; echo "$out" | grep -m1 "case:" | cut -c1-400; fi
done
