#!/usr/bin/env python3
"""tools/seed_eval.py <name> <property> <patch.diff> <demo.py> <note.md> [--checks C01,C02|all] [--tier quick]

Confirms a seeded change in a scratch worktree of /repo (outside /repo and /verif):
  1. the patch applies and the 30 pinned tests still pass with it,
  2. the demonstration exits 1 with the change and 0 without it,
  3. runs the named checks (default: the property's own check) against the patched worktree,
then stores patch.diff, demo.py, note.md and meta.json under /verif/seeded/<name>/ (only if 1 and 2 hold).
The scratch worktree and its build output are removed afterwards.  /repo itself is never modified."""
import argparse
import json
import os
import shutil
import subprocess
import sys
import tempfile
import time

VERIF = os.path.dirname(os.path.dirname(os.path.abspath(__file__)))
PY = '/venv/bin/python'


def sh(cmd, **kw):
    return subprocess.run(cmd, shell=isinstance(cmd, str), capture_output=True, text=True, **kw)


def main():
    ap = argparse.ArgumentParser()
    ap.add_argument('name')
    ap.add_argument('prop')
    ap.add_argument('patch')
    ap.add_argument('demo')
    ap.add_argument('note')
    ap.add_argument('--checks', default=None)
    ap.add_argument('--tier', default='quick')
    ap.add_argument('--origin', default='sub-agent')
    a = ap.parse_args()
    patch = os.path.abspath(a.patch)
    demo = os.path.abspath(a.demo)
    wt = tempfile.mkdtemp(prefix='seed-wt-')
    out = tempfile.mkdtemp(prefix='seed-out-')
    os.rmdir(wt)
    meta = {'name': a.name, 'property': a.prop, 'origin': a.origin, 'tier': a.tier}
    try:
        r = sh(['git', '-C', '/repo', 'worktree', 'add', '-q', '--detach', wt, 'HEAD'])
        if r.returncode:
            print('cannot create worktree', r.stderr)
            return 2
        meta['repo_head'] = sh(['git', '-C', '/repo', 'log', '--format=%h', '-1']).stdout.strip()
        clean = sh([PY, demo, wt], env=dict(os.environ, PYTHONDONTWRITEBYTECODE='1'))
        meta['demo_without_change'] = clean.returncode
        r = sh(['git', '-C', wt, 'apply', patch])
        if r.returncode:
            print('PATCH DOES NOT APPLY:', r.stderr[:500])
            return 2
        t = sh('cd %s && %s -m pytest -q -p no:cacheprovider 2>&1 | tail -1' % (wt, PY), env=dict(os.environ, PYTHONDONTWRITEBYTECODE='1'))
        meta['tests_with_change'] = t.stdout.strip()
        mut = sh([PY, demo, wt], env=dict(os.environ, PYTHONDONTWRITEBYTECODE='1'))
        meta['demo_with_change'] = mut.returncode
        meta['demo_output_with_change'] = (mut.stdout + mut.stderr)[-600:]
        ok = ('30 passed' in meta['tests_with_change'] and 'failed' not in meta['tests_with_change']
              and meta['demo_without_change'] == 0 and meta['demo_with_change'] == 1)
        meta['confirmed'] = ok
        print('tests: %s | demo without: %s | demo with: %s | confirmed: %s' % (meta['tests_with_change'], meta['demo_without_change'], meta['demo_with_change'], ok))
        if not ok:
            print(meta['demo_output_with_change'])
            print((clean.stdout + clean.stderr)[-400:])
        checks = [a.prop] if not a.checks else (['C%02d' % i for i in range(1, 20)] if a.checks == 'all' else a.checks.split(','))
        res = {}
        for cid in checks:
            t0 = time.time()
            env = dict(os.environ, VERIF_REPO=wt, VERIF_EVIDENCE_DIR=out, VERIF_REPLAY_DIR=out)
            c = sh([os.path.join(VERIF, 'check'), cid, '--tier', a.tier], env=env, cwd=VERIF)
            first = next((l.strip() for l in c.stdout.splitlines() if l.startswith('  [')), '')
            res[cid] = {'exit': c.returncode, 'detected': c.returncode == 1, 'wall_s': round(time.time() - t0, 1), 'first_finding': first[:300]}
            print('%s: %s (%ss) %s' % (cid, 'DETECTED' if c.returncode == 1 else ('missed' if c.returncode == 0 else 'rc=%d' % c.returncode), res[cid]['wall_s'], first[:160]))
            if c.returncode not in (0, 1):
                print(c.stdout[-800:], c.stderr[-800:])
        meta['checks'] = res
        meta['what_we_ran'] = ['git apply patch.diff in a scratch worktree of /repo', 'cd <wt> && /venv/bin/python -m pytest -q -p no:cacheprovider',
                               '/venv/bin/python demo.py <wt> (with and without the change)'] + ['VERIF_REPO=<wt> ./check %s --tier %s' % (c, a.tier) for c in checks]
        if ok:
            dst = os.path.join(VERIF, 'seeded', a.name)
            os.makedirs(dst, exist_ok=True)
            shutil.copy(patch, os.path.join(dst, 'patch.diff'))
            shutil.copy(demo, os.path.join(dst, 'demo.py'))
            note = open(a.note).read() if os.path.exists(a.note) else a.note
            meta['needs_to_manifest'] = note
            old = os.path.join(dst, 'meta.json')
            if os.path.exists(old):
                prev = json.load(open(old))
                prev_checks = prev.get('checks', {})
                prev_checks.update(res)
                meta['checks'] = prev_checks
            json.dump(meta, open(old, 'w'), indent=1, ensure_ascii=False)
        return 0 if ok else 3
    finally:
        sh(['git', '-C', '/repo', 'worktree', 'remove', '--force', wt])
        shutil.rmtree(wt, ignore_errors=True)
        shutil.rmtree(out, ignore_errors=True)
        sh(['git', '-C', '/repo', 'worktree', 'prune'])


if __name__ == '__main__':
    sys.exit(main())
