#!/bin/bash
# tools/reeval_seeded.sh [name-glob] [--checks all]   re-confirm and re-run the stored seeded changes from /verif/seeded/*
cd "$(dirname "$(readlink -f "$0")")/.."
pat=${1:-*}; shift
for d in seeded/$pat; do
  [ -f "$d/patch.diff" ] || continue
  n=$(basename "$d"); p=$(python3 -c "import json;print(json.load(open('$d/meta.json'))['property'])")
  python3 -c "import json;open('/tmp/_note.md','w').write(json.load(open('$d/meta.json')).get('needs_to_manifest',''))"
  cp "$d/patch.diff" /tmp/_p.diff; cp "$d/demo.py" /tmp/_d.py
  echo "== $n $(python3 tools/seed_eval.py "$n" "$p" /tmp/_p.diff /tmp/_d.py /tmp/_note.md "$@" 2>&1 | grep -E "^C[0-9]+:" | tr '\n' ' ' | cut -c1-300)"
done
rm -f /tmp/_p.diff /tmp/_d.py /tmp/_note.md
