#!/bin/bash
# tools/refactor_all.sh [glob]   all quick checks against every stored behaviour-preserving refactoring (refactorings/*.diff):
# the false-alarm experiment.  Every line must say "silent".
cd "$(dirname "$(readlink -f "$0")")/.."
for f in refactorings/${1:-*}.diff; do
  tools/refactor_eval.sh "$(basename "$f" .diff)" "$f"
done
