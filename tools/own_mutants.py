#!/usr/bin/env python3
"""Builds the hand-written demonstration changes of DESIGN.md section 6 as patches (into a scratch directory),
checks that the pinned tests still pass with each, and runs the named checks against each in a scratch worktree.

usage: tools/own_mutants.py [name-substring ...]      (output: one line per change and check)
"""
import os
import subprocess
import sys
import tempfile
import shutil

P = 'python/gherkin/'
MUT = [
    # name, property, file, old, new
    ('c01-row-iter', 'C01', P + 'gherkin_line.py', 'char = next(row_iter, "")', 'char = next(row_iter)'),
    ('c01-cap-12', 'C01', P + 'parser.py', 'if len(context.errors) > 10:', 'if len(context.errors) >= 12:'),
    ('c02-retarget', 'C02', P + 'parser.py', None, None),     # special
    ('c02-la-skip-other', 'C02', P + 'parser.py',
     "if not (self.match_Empty(context, token) or self.match_Comment(context, token) or self.match_TagLine(context, token) or False):\n                break\n\n        context.token_queue.extend(queue)\n\n        return match\n    def lookahead_1",
     "if not (self.match_Empty(context, token) or self.match_Comment(context, token) or self.match_TagLine(context, token) or self.match_Other(context, token)):\n                break\n\n        context.token_queue.extend(queue)\n\n        return match\n    def lookahead_1"),
    ('c03-children-order', 'C03', P + 'ast_builder.py',
     'children = children + [\n                {"scenario": i} for i in node.get_items("ScenarioDefinition")\n            ]\n            children = children + [{"rule": i} for i in node.get_items("Rule")]',
     'children = children + [{"rule": i} for i in node.get_items("Rule")]\n            children = children + [\n                {"scenario": i} for i in node.get_items("ScenarioDefinition")\n            ]'),
    ('c03-desc-join', 'C03', P + 'ast_builder.py', 'return "\\n".join(token.matched_text for token in tokens)', 'return "\\n".join(token.matched_text.rstrip() for token in tokens)'),
    ('c04-tag-column', 'C04', P + 'gherkin_line.py', 'column += len(item) + 1', 'column += len(item.strip()) + 1'),
    ('c04-cell-indent', 'C04', P + 'gherkin_line.py', '"column": col + self.indent + cell_indent,', '"column": col + self.indent + (cell_indent if lstripped_cell else 0),'),
    ('c05-title-prefix', 'C05', P + 'gherkin_line.py', 'return self._trimmed_line_text.startswith(keyword + ":")', 'return self._trimmed_line_text.startswith(keyword) and ":" in self._trimmed_line_text[len(keyword):len(keyword) + 2]'),
    ('c05-but-type', 'C05', P + 'token_matcher.py', 'for keyword in self.dialect.and_keywords + self.dialect.but_keywords:', 'for keyword in self.dialect.and_keywords:'),
    ('c06-header-only', 'C06', P + 'pickles/compiler.py', 'for values in examples["tableBody"]:', 'for values in examples["tableBody"] or [examples["tableHeader"]][:0 if scenario["steps"] else 1]:'),
    ('c07-alias', 'C07', P + 'pickles/compiler.py', 'background_steps = []\n        background_steps += feature_background_steps', 'background_steps = feature_background_steps'),
    ('c08-order', 'C08', P + 'pickles/compiler.py', 'tags = list(feature_tags) + list(rule["tags"])', 'tags = list(rule["tags"]) + list(feature_tags)'),
    ('c09-once', 'C09', P + 'pickles/compiler.py', 'name = name.replace("<" + variable_cell["value"] + ">", value_cell["value"])', 'name = name.replace("<" + variable_cell["value"] + ">", value_cell["value"], 1)'),
    ('c10-conj-reset', 'C10', P + 'pickles/compiler.py',
     'last_keyword_type = "Unknown"\n        steps = list()\n        if scenario["steps"]:\n            for step in background_steps + scenario["steps"]:',
     'last_keyword_type = "Unknown"\n        steps = list()\n        if scenario["steps"]:\n            for step in scenario["steps"][:0] + background_steps + scenario["steps"]:\n                if step is scenario["steps"][0] and background_steps:\n                    last_keyword_type = "Unknown"'),
    ('c11-id-before-tags', 'C11', P + 'ast_builder.py',
     'tags = self.get_tags(node)\n            scenario_node = cast(AstNode, node.get_single("Scenario"))',
     'scenario_id = self.id_generator.get_next_id()\n            tags = self.get_tags(node)\n            scenario_node = cast(AstNode, node.get_single("Scenario"))'),
    ('c12-backslash', 'C12', P + 'gherkin_line.py', 'if char not in ["|", "\\\\"]:', 'if char not in ["|"]:'),
    ('c12-trim-lf', 'C12', P + 'gherkin_line.py', 'lstripped_cell = re.sub(r"^[^\\S\\n]*", "", cell, flags=re.U)', 'lstripped_cell = re.sub(r"^\\s*", "", cell, flags=re.U)'),
    ('c13-either-delim', 'C13', P + 'token_matcher.py',
     'return self._match_DocStringSeparator(\n                token, self._active_doc_string_separator, False\n            )',
     'return self._match_DocStringSeparator(\n                token, self._active_doc_string_separator, False\n            ) or (token.line.indent == self._indent_to_remove and self._match_DocStringSeparator(token, \'"""\' if self._active_doc_string_separator == "```" else "```", False))'),
    ('c13-lstrip', 'C13', P + 'gherkin_line.py', 'if indent_to_remove < 0 or indent_to_remove > self.indent:', 'if indent_to_remove < 0 or indent_to_remove >= self.indent:'),
    ('c14-no-dedup', 'C14', P + 'parser.py', 'if str(error) not in (str(e) for e in context.errors):', 'if error not in context.errors:'),
    ('c14-eof-line', 'C14', P + 'token_scanner.py', 'self.line_number += 1\n        location: Location = {"line": self.line_number}\n        line = self.io.readline()',
     'line = self.io.readline()\n        if line or self.line_number == 0:\n            self.line_number += 1\n        location: Location = {"line": self.line_number}'),
    ('c15-reset-keeps-sep', 'C15', P + 'token_matcher.py', 'self._indent_to_remove = 0\n        self._active_doc_string_separator = None\n\n    def match_FeatureLine', 'self._indent_to_remove = 0\n\n    def match_FeatureLine'),
    ('c15-class-comments', 'C15', P + 'ast_builder.py', 'self.stack = [AstNode("None")]\n        self.comments = []', 'self.stack = [AstNode("None")]\n        self.comments = _COMMENTS\n        del _COMMENTS[:]'),
    ('c17-source-first', 'C17', P + 'stream/gherkin_events.py', None, None),
    ('c18-extendleft', 'C18', P + 'parser.py', None, None),
    ('c19-no-escape', 'C19', P + 'token_matcher_markdown.py', 'keywords_or_list = "|".join(map(lambda x: re.escape(x), keywords))', 'keywords_or_list = "|".join(keywords)'),
    ('c19-depth-7', 'C19', P + 'token_matcher_markdown.py', 'KEYWORD_PREFIX_HEADER = "^(#{1,6}\\\\s)"', 'KEYWORD_PREFIX_HEADER = "^(#{1,7}\\\\s)"'),
]


def special(name, src):
    if name == 'c02-retarget':
        i = src.index('def match_token_at_17(')
        j = src.index('if self.lookahead_1(context, token):', i)
        k = src.index('return 14', j)
        return src[:k] + 'return 30' + src[k + len('return 14'):]
    if name == 'c17-source-first':
        a = '        try:\n            gherkin_document = self.parser.parse(source)'
        b = '        if self.options.print_source:\n            yield source_event\n        try:\n            gherkin_document = self.parser.parse(source)'
        assert a in src
        src = src.replace(a, b)
        a2 = '            if self.options.print_source:\n                yield source_event\n\n            if self.options.print_ast:'
        assert a2 in src
        return src.replace(a2, '            if self.options.print_ast:')
    if name == 'c18-extendleft':
        a = '        context.token_queue.extend(queue)\n\n        return match\n    def lookahead_1'
        assert a in src
        return src.replace(a, '        context.token_queue.extendleft(reversed(queue)) if not context.token_queue else context.token_queue.extendleft(queue)\n\n        return match\n    def lookahead_1')
    raise KeyError(name)


def main():
    want = sys.argv[1:]
    tier = os.environ.get('TIER', 'quick')
    for name, prop, path, old, new in MUT:
        if want and not any(w in name for w in want):
            continue
        wt = tempfile.mkdtemp(prefix='own-')
        os.rmdir(wt)
        out = tempfile.mkdtemp(prefix='own-out-')
        subprocess.run(['git', '-C', '/repo', 'worktree', 'add', '-q', '--detach', wt, 'HEAD'], check=True)
        try:
            f = os.path.join(wt, path)
            src = open(f, encoding='utf8').read()
            if old is None:
                dst = special(name, src)
            else:
                if src.count(old) != 1:
                    print('%s: pattern occurs %d times - skipped' % (name, src.count(old)))
                    continue
                dst = src.replace(old, new)
            if name == 'c15-class-comments':
                dst = dst.replace('class AstBuilder:', '_COMMENTS: list = []\n\n\nclass AstBuilder:')
            open(f, 'w', encoding='utf8').write(dst)
            t = subprocess.run('cd %s && /venv/bin/python -m pytest -q -p no:cacheprovider 2>&1 | tail -1' % wt, shell=True, capture_output=True, text=True,
                               env=dict(os.environ, PYTHONDONTWRITEBYTECODE='1')).stdout.strip()
            env = dict(os.environ, VERIF_REPO=wt, VERIF_EVIDENCE_DIR=out, VERIF_REPLAY_DIR=out)
            c = subprocess.run(['/verif/check', prop, '--tier', tier], env=env, cwd='/verif', capture_output=True, text=True)
            first = next((l.strip() for l in c.stdout.splitlines() if l.startswith('  [')), '')
            print('%-22s %s tests[%s] %s %s' % (name, prop, t, 'DETECTED' if c.returncode == 1 else ('MISSED' if c.returncode == 0 else 'rc=%d %s' % (c.returncode, c.stdout[-300:])), first[:150]))
            sys.stdout.flush()
        finally:
            subprocess.run(['git', '-C', '/repo', 'worktree', 'remove', '--force', wt])
            shutil.rmtree(wt, ignore_errors=True)
            shutil.rmtree(out, ignore_errors=True)


if __name__ == '__main__':
    main()
